package main

import (
	"os"
	"os/exec"
	"path/filepath"
	"strings"
	"testing"
)

// The instrumenter must rewrite every concurrency form in general position and the
// result must compile against verif/vrt and verif/vnet with no direct use of the
// rewritten primitives left.
func TestFormsAreRewrittenAndCompile(t *testing.T) {
	root, _ := filepath.Abs("../..")
	dir := t.TempDir()
	src, err := os.ReadFile("testdata/forms.go.txt")
	if err != nil {
		t.Fatal(err)
	}
	os.WriteFile(filepath.Join(dir, "forms.go"), src, 0644)
	os.WriteFile(filepath.Join(dir, "go.mod"), []byte("module forms\n\ngo 1.21\n\nrequire verif v0.0.0\nreplace verif => "+root+"\n"), 0644)
	bin := filepath.Join(dir, "vinstr")
	if out, err := exec.Command("go", "build", "-o", bin, ".").CombinedOutput(); err != nil {
		t.Fatalf("build vinstr: %v\n%s", err, out)
	}
	cmd := exec.Command(bin, "-touch", "n", "-pkg", ".", "forms.go")
	cmd.Dir = dir
	if out, err := cmd.CombinedOutput(); err != nil {
		t.Fatalf("vinstr: %v\n%s", err, out)
	}
	got, _ := os.ReadFile(filepath.Join(dir, "forms.go"))
	for _, bad := range []string{"sync.Mutex", "sync.RWMutex", "sync.WaitGroup", "sync.Once", "sync.NewCond", "time.NewTimer", "time.NewTicker",
		"time.After(", "time.Sleep(", "time.Now(", "time.Since(", "rand.Intn(", "\tconn, derr := net.DialTimeout(", "context.WithTimeout(", "go func", "go s.", "select {", "= <-", "\t<-", " <-s.", "\tclose("} {
		if strings.Contains(string(got), bad) {
			t.Errorf("instrumented source still contains %q", bad)
		}
	}
	b := exec.Command("go", "build", "./...")
	b.Dir = dir
	b.Env = append(os.Environ(), "GOFLAGS=-mod=mod", "GOPROXY=off", "GOSUMDB=off")
	if out, err := b.CombinedOutput(); err != nil {
		t.Fatalf("instrumented source does not compile: %v\n%s\n%s", err, out, got)
	}
}
