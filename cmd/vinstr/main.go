// vinstr rewrites Go source files so that their concurrency primitives, clock,
// network dialing, randomness and contexts go through verif/vrt and verif/vnet.
//
// usage: vinstr -touch f1,f2,... file.go...
//
// Every form is handled in general position (not only the instances present in the
// repository today); a form that cannot be rewritten faithfully makes vinstr exit 2.
package main

import (
	"bytes"
	"flag"
	"fmt"
	"go/ast"
	"go/format"
	"go/importer"
	"go/parser"
	"go/token"
	"go/types"
	"os"
	"path/filepath"
	"reflect"
	"sort"
	"strconv"
	"strings"
)

var pkgMap = map[string]map[string]string{
	"sync": {
		"Mutex": "vrt.Mutex", "RWMutex": "vrt.RWMutex", "WaitGroup": "vrt.WaitGroup", "Once": "vrt.Once",
		"Cond": "vrt.Cond", "NewCond": "vrt.NewCond", "Pool": "vrt.Pool",
	},
	"time": {
		"NewTicker": "vrt.NewTicker", "NewTimer": "vrt.NewTimer", "After": "vrt.After", "AfterFunc": "vrt.AfterFunc",
		"Tick": "vrt.Tick", "Sleep": "vrt.Sleep", "Now": "vrt.Now", "Since": "vrt.Since", "Until": "vrt.Until",
		"Ticker": "vrt.Ticker", "Timer": "vrt.Timer",
	},
	"net": {
		"DialTimeout": "vnet.DialTimeout", "Dial": "vnet.Dial", "LookupSRV": "vnet.LookupSRV",
	},
	"math/rand": {
		"Intn": "vrt.RandIntn",
	},
	"context": {
		"WithCancel": "vrt.WithCancel", "WithTimeout": "vrt.WithTimeout", "WithDeadline": "vrt.WithDeadline",
		"Background": "vrt.Background", "TODO": "vrt.TODO",
	},
}

// forms we refuse to guess about
var refuse = map[string]map[string]bool{
	"net":  {"Listen": true, "Dialer": true, "DialTCP": true},
	"sync": {},
}

type rw struct {
	fset    *token.FileSet
	file    *ast.File
	fname   string
	info    *types.Info
	imports map[string]string // local name -> path
	touch   map[string]bool
	tmp     int
	useVrt  bool
	useVnet bool
	errs    []string
}

func (r *rw) failf(pos token.Pos, format string, a ...any) {
	r.errs = append(r.errs, fmt.Sprintf("%s: %s", r.fset.Position(pos), fmt.Sprintf(format, a...)))
}

func (r *rw) fresh(p string) string {
	r.tmp++
	return fmt.Sprintf("_v%s%d", p, r.tmp)
}

func ident(n string) *ast.Ident { return ast.NewIdent(n) }

func (r *rw) sel(q string) ast.Expr {
	parts := strings.SplitN(q, ".", 2)
	if parts[0] == "vrt" {
		r.useVrt = true
	} else {
		r.useVnet = true
	}
	return &ast.SelectorExpr{X: ident(parts[0]), Sel: ident(parts[1])}
}

func (r *rw) call(q string, args ...ast.Expr) *ast.CallExpr {
	return &ast.CallExpr{Fun: r.sel(q), Args: args}
}

func strLit(s string) ast.Expr { return &ast.BasicLit{Kind: token.STRING, Value: strconv.Quote(s)} }

func (r *rw) site(pos token.Pos) string {
	p := r.fset.Position(pos)
	return fmt.Sprintf("%s:%d", filepath.Base(p.Filename), p.Line)
}

// ---------------------------------------------------------------------------
// generic traversal by reflection

var (
	exprType  = reflect.TypeOf((*ast.Expr)(nil)).Elem()
	stmtType  = reflect.TypeOf((*ast.Stmt)(nil)).Elem()
	declType  = reflect.TypeOf((*ast.Decl)(nil)).Elem()
	specType  = reflect.TypeOf((*ast.Spec)(nil)).Elem()
	nodeType  = reflect.TypeOf((*ast.Node)(nil)).Elem()
	objType   = reflect.TypeOf((*ast.Object)(nil))
	scopeType = reflect.TypeOf((*ast.Scope)(nil))
)

// children rewrites every child of n in place.
func (r *rw) children(n ast.Node) {
	v := reflect.ValueOf(n)
	if v.Kind() != reflect.Ptr || v.IsNil() {
		return
	}
	v = v.Elem()
	if v.Kind() != reflect.Struct {
		return
	}
	for i := 0; i < v.NumField(); i++ {
		f := v.Field(i)
		ft := f.Type()
		if ft == objType || ft == scopeType {
			continue
		}
		switch {
		case ft == exprType:
			if !f.IsNil() {
				f.Set(reflect.ValueOf(r.expr(f.Interface().(ast.Expr))))
			}
		case ft == stmtType:
			if !f.IsNil() {
				f.Set(reflect.ValueOf(r.stmt(f.Interface().(ast.Stmt))))
			}
		case ft == declType || ft == specType:
			// a single declaration (the GenDecl of a DeclStmt: local `var wg sync.WaitGroup`)
			if !f.IsNil() {
				r.children(f.Interface().(ast.Node))
			}
		case ft.Kind() == reflect.Slice && ft.Elem() == exprType:
			for j := 0; j < f.Len(); j++ {
				e := f.Index(j)
				if !e.IsNil() {
					e.Set(reflect.ValueOf(r.expr(e.Interface().(ast.Expr))))
				}
			}
		case ft.Kind() == reflect.Slice && ft.Elem() == stmtType:
			f.Set(reflect.ValueOf(r.stmts(f.Interface().([]ast.Stmt))))
		case ft.Kind() == reflect.Slice && (ft.Elem() == declType || ft.Elem() == specType):
			for j := 0; j < f.Len(); j++ {
				r.children(f.Index(j).Interface().(ast.Node))
			}
		case ft.Kind() == reflect.Slice && ft.Elem().Kind() == reflect.Ptr && ft.Elem().Implements(nodeType):
			for j := 0; j < f.Len(); j++ {
				if !f.Index(j).IsNil() {
					r.children(f.Index(j).Interface().(ast.Node))
				}
			}
		case ft.Kind() == reflect.Ptr && ft.Implements(nodeType):
			if !f.IsNil() {
				if ft.Implements(exprType) {
					// typed expression pointer field (e.g. *ast.CallExpr in GoStmt, *ast.Ident): only descend
					r.children(f.Interface().(ast.Node))
				} else {
					r.children(f.Interface().(ast.Node))
				}
			}
		}
	}
}

func (r *rw) pkgOf(id *ast.Ident) (string, bool) {
	if r.info != nil {
		if obj, ok := r.info.Uses[id]; ok {
			if pn, ok := obj.(*types.PkgName); ok {
				return pn.Imported().Path(), true
			}
			return "", false
		}
	}
	p, ok := r.imports[id.Name]
	return p, ok
}

func (r *rw) expr(e ast.Expr) ast.Expr {
	switch x := e.(type) {
	case *ast.FuncLit:
		r.children(x)
		return x
	case *ast.SelectorExpr:
		if id, ok := x.X.(*ast.Ident); ok {
			if path, ok := r.pkgOf(id); ok {
				if m, ok := pkgMap[path]; ok {
					if to, ok := m[x.Sel.Name]; ok {
						return r.sel(to)
					}
				}
				if refuse[path][x.Sel.Name] {
					r.failf(x.Pos(), "unsupported %s.%s", path, x.Sel.Name)
				}
				return x
			}
		}
		r.children(x)
		return x
	case *ast.UnaryExpr:
		r.children(x)
		if x.Op == token.ARROW {
			return r.call("vrt.Recv", x.X)
		}
		return x
	case *ast.CallExpr:
		r.children(x)
		if id, ok := x.Fun.(*ast.Ident); ok && id.Name == "close" && len(x.Args) == 1 && r.isBuiltin(id) {
			return r.call("vrt.Close", x.Args[0])
		}
		return x
	}
	r.children(e)
	return e
}

func (r *rw) isBuiltin(id *ast.Ident) bool {
	if r.info != nil {
		if obj, ok := r.info.Uses[id]; ok {
			_, b := obj.(*types.Builtin)
			return b
		}
	}
	return true
}

func (r *rw) isChan(e ast.Expr) bool {
	if r.info == nil {
		return false
	}
	tv, ok := r.info.Types[e]
	if !ok || tv.Type == nil {
		return false
	}
	_, ok = tv.Type.Underlying().(*types.Chan)
	return ok
}

func isRecv(e ast.Expr) (*ast.UnaryExpr, bool) {
	for {
		p, ok := e.(*ast.ParenExpr)
		if !ok {
			break
		}
		e = p.X
	}
	u, ok := e.(*ast.UnaryExpr)
	if ok && u.Op == token.ARROW {
		return u, true
	}
	return nil, false
}

// stmts rewrites a statement list, inserting Touch points.
func (r *rw) stmts(list []ast.Stmt) []ast.Stmt {
	var out []ast.Stmt
	for _, s := range list {
		for _, name := range r.touched(s) {
			out = append(out, &ast.ExprStmt{X: r.call("vrt.Touch", strLit(name))})
		}
		out = append(out, r.stmt(s))
	}
	return out
}

// touched lists the touch fields a statement accesses outside nested bodies.
func (r *rw) touched(s ast.Stmt) []string {
	var names []string
	seen := map[string]bool{}
	var visit func(n ast.Node)
	visit = func(n ast.Node) {
		if n == nil || reflect.ValueOf(n).IsNil() {
			return
		}
		ast.Inspect(n, func(m ast.Node) bool {
			switch y := m.(type) {
			case *ast.FuncLit:
				return false
			case *ast.BlockStmt:
				return false
			case *ast.SelectorExpr:
				if id, ok := y.X.(*ast.Ident); ok {
					if path, ok := r.pkgOf(id); ok {
						if path == "sync/atomic" && !seen["atomic"] {
							seen["atomic"] = true
							names = append(names, "atomic")
						}
						return false
					}
				}
				if r.touch[y.Sel.Name] && !seen[y.Sel.Name] {
					seen[y.Sel.Name] = true
					names = append(names, y.Sel.Name)
				}
			}
			return true
		})
	}
	switch x := s.(type) {
	case *ast.IfStmt:
		visit(x.Init)
		visit(x.Cond)
	case *ast.ForStmt:
		visit(x.Init)
		visit(x.Cond)
		visit(x.Post)
	case *ast.RangeStmt:
		visit(x.X)
	case *ast.SwitchStmt:
		visit(x.Init)
		visit(x.Tag)
	case *ast.TypeSwitchStmt:
		visit(x.Init)
		visit(x.Assign)
	case *ast.BlockStmt, *ast.SelectStmt, *ast.LabeledStmt:
	case *ast.CaseClause, *ast.CommClause:
	default:
		visit(s)
	}
	return names
}

func (r *rw) stmt(s ast.Stmt) ast.Stmt {
	switch x := s.(type) {
	case *ast.GoStmt:
		return r.goStmt(x)
	case *ast.SendStmt:
		r.children(x)
		return &ast.ExprStmt{X: &ast.CallExpr{
			Fun:  &ast.SelectorExpr{X: r.call("vrt.S", x.Chan), Sel: ident("Send")},
			Args: []ast.Expr{x.Value},
		}}
	case *ast.AssignStmt:
		if len(x.Lhs) == 2 && len(x.Rhs) == 1 {
			if u, ok := isRecv(x.Rhs[0]); ok {
				for i := range x.Lhs {
					x.Lhs[i] = r.expr(x.Lhs[i])
				}
				x.Rhs[0] = r.call("vrt.Recv2", r.expr(u.X))
				return x
			}
		}
	case *ast.DeclStmt:
		if gd, ok := x.Decl.(*ast.GenDecl); ok && gd.Tok == token.VAR {
			for _, sp := range gd.Specs {
				vs := sp.(*ast.ValueSpec)
				if len(vs.Names) == 2 && len(vs.Values) == 1 {
					if u, ok := isRecv(vs.Values[0]); ok {
						vs.Values[0] = r.call("vrt.Recv2", r.expr(u.X))
						if vs.Type != nil {
							vs.Type = r.expr(vs.Type)
						}
						return x
					}
				}
			}
		}
	case *ast.DeferStmt:
		if ce, ok := r.expr(x.Call).(*ast.CallExpr); ok {
			x.Call = ce
		}
		return x
	case *ast.SelectStmt:
		return r.selectStmt(x, nil)
	case *ast.LabeledStmt:
		if sel, ok := x.Stmt.(*ast.SelectStmt); ok {
			return r.selectStmt(sel, x.Label)
		}
	case *ast.RangeStmt:
		if r.isChan(x.X) {
			return r.rangeChan(x)
		}
	case *ast.IfStmt:
		// a for-loop condition touching shared state is re-evaluated each iteration
	case *ast.ForStmt:
		if x.Cond != nil {
			probe := &ast.ExprStmt{X: x.Cond}
			names := r.touched(probe)
			r.children(x)
			if len(names) > 0 {
				var pre []ast.Stmt
				for _, n := range names {
					pre = append(pre, &ast.ExprStmt{X: r.call("vrt.Touch", strLit(n))})
				}
				x.Body.List = append(x.Body.List, pre...) // before the next evaluation of the condition
			}
			return x
		}
	}
	r.children(s)
	return s
}

func (r *rw) goStmt(g *ast.GoStmt) ast.Stmt {
	site := r.site(g.Pos())
	call := g.Call
	// go func(){...}() with no arguments: run the literal directly
	if fl, ok := call.Fun.(*ast.FuncLit); ok && len(call.Args) == 0 {
		r.children(fl)
		return &ast.ExprStmt{X: r.call("vrt.Go", strLit(site), fl)}
	}
	var pre []ast.Stmt
	fn := r.expr(call.Fun)
	fname := r.fresh("f")
	pre = append(pre, &ast.AssignStmt{Lhs: []ast.Expr{ident(fname)}, Tok: token.DEFINE, Rhs: []ast.Expr{fn}})
	var args []ast.Expr
	for _, a := range call.Args {
		an := r.fresh("a")
		pre = append(pre, &ast.AssignStmt{Lhs: []ast.Expr{ident(an)}, Tok: token.DEFINE, Rhs: []ast.Expr{r.expr(a)}})
		args = append(args, ident(an))
	}
	inner := &ast.CallExpr{Fun: ident(fname), Args: args, Ellipsis: call.Ellipsis}
	if call.Ellipsis != token.NoPos {
		inner.Ellipsis = 1
	}
	lit := &ast.FuncLit{Type: &ast.FuncType{Params: &ast.FieldList{}}, Body: &ast.BlockStmt{List: []ast.Stmt{&ast.ExprStmt{X: inner}}}}
	pre = append(pre, &ast.ExprStmt{X: r.call("vrt.Go", strLit(site), lit)})
	return &ast.BlockStmt{List: pre}
}

func (r *rw) selectStmt(sel *ast.SelectStmt, label *ast.Ident) ast.Stmt {
	var pre []ast.Stmt
	var caseVars []ast.Expr
	sw := &ast.SwitchStmt{Body: &ast.BlockStmt{}}
	hasDefault := false
	idx := 0
	for _, c := range sel.Body.List {
		cc := c.(*ast.CommClause)
		if cc.Comm == nil {
			hasDefault = true
			sw.Body.List = append(sw.Body.List, &ast.CaseClause{List: nil, Body: r.stmts(cc.Body)})
			continue
		}
		cv := r.fresh("c")
		var body []ast.Stmt
		switch cm := cc.Comm.(type) {
		case *ast.SendStmt:
			ch := r.expr(cm.Chan)
			val := r.expr(cm.Value)
			pre = append(pre, &ast.AssignStmt{Lhs: []ast.Expr{ident(cv)}, Tok: token.DEFINE, Rhs: []ast.Expr{
				&ast.CallExpr{Fun: &ast.SelectorExpr{X: r.call("vrt.S", ch), Sel: ident("Case")}, Args: []ast.Expr{val}}}})
		case *ast.ExprStmt:
			u, ok := isRecv(cm.X)
			if !ok {
				r.failf(cm.Pos(), "select case is not a receive")
				continue
			}
			pre = append(pre, &ast.AssignStmt{Lhs: []ast.Expr{ident(cv)}, Tok: token.DEFINE, Rhs: []ast.Expr{r.call("vrt.RecvCase", r.expr(u.X))}})
		case *ast.AssignStmt:
			u, ok := isRecv(cm.Rhs[0])
			if !ok {
				r.failf(cm.Pos(), "select case is not a receive")
				continue
			}
			pre = append(pre, &ast.AssignStmt{Lhs: []ast.Expr{ident(cv)}, Tok: token.DEFINE, Rhs: []ast.Expr{r.call("vrt.RecvCase", r.expr(u.X))}})
			rhs := []ast.Expr{&ast.SelectorExpr{X: ident(cv), Sel: ident("Val")}}
			if len(cm.Lhs) == 2 {
				rhs = append(rhs, &ast.SelectorExpr{X: ident(cv), Sel: ident("Ok")})
			}
			lhs := make([]ast.Expr, len(cm.Lhs))
			for i := range cm.Lhs {
				lhs[i] = r.expr(cm.Lhs[i])
			}
			body = append(body, &ast.AssignStmt{Lhs: lhs, Tok: cm.Tok, Rhs: rhs})
		default:
			r.failf(cc.Pos(), "unsupported select communication")
			continue
		}
		caseVars = append(caseVars, ident(cv))
		body = append(body, r.stmts(cc.Body)...)
		sw.Body.List = append(sw.Body.List, &ast.CaseClause{
			List: []ast.Expr{&ast.BasicLit{Kind: token.INT, Value: strconv.Itoa(idx)}}, Body: body})
		idx++
	}
	hd := "false"
	if hasDefault {
		hd = "true"
	}
	sw.Tag = r.call("vrt.Select", append([]ast.Expr{ident(hd)}, caseVars...)...)
	var swStmt ast.Stmt = sw
	if label != nil {
		swStmt = &ast.LabeledStmt{Label: label, Stmt: sw}
	}
	return &ast.BlockStmt{List: append(pre, swStmt)}
}

func (r *rw) rangeChan(x *ast.RangeStmt) ast.Stmt {
	okv := r.fresh("ok")
	var lhs ast.Expr = ident("_")
	tok := token.DEFINE
	if x.Key != nil {
		lhs = r.expr(x.Key)
		tok = x.Tok
	}
	var recv ast.Stmt
	if tok == token.DEFINE {
		recv = &ast.AssignStmt{Lhs: []ast.Expr{lhs, ident(okv)}, Tok: token.DEFINE, Rhs: []ast.Expr{r.call("vrt.Recv2", r.expr(x.X))}}
	} else {
		// v = range ch: declare ok separately
		recv = &ast.BlockStmt{List: []ast.Stmt{}}
		r.failf(x.Pos(), "range over channel with assignment (=) is not supported")
	}
	brk := &ast.IfStmt{Cond: &ast.UnaryExpr{Op: token.NOT, X: ident(okv)}, Body: &ast.BlockStmt{List: []ast.Stmt{&ast.BranchStmt{Tok: token.BREAK}}}}
	body := append([]ast.Stmt{recv, brk}, r.stmts(x.Body.List)...)
	return &ast.ForStmt{Body: &ast.BlockStmt{List: body}}
}

// ---------------------------------------------------------------------------

func (r *rw) fixImports() {
	used := map[string]bool{}
	ast.Inspect(r.file, func(n ast.Node) bool {
		if se, ok := n.(*ast.SelectorExpr); ok {
			if id, ok := se.X.(*ast.Ident); ok {
				used[id.Name] = true
			}
		}
		return true
	})
	var decls []ast.Decl
	added := false
	for _, d := range r.file.Decls {
		gd, ok := d.(*ast.GenDecl)
		if !ok || gd.Tok != token.IMPORT {
			decls = append(decls, d)
			continue
		}
		var specs []ast.Spec
		for _, sp := range gd.Specs {
			is := sp.(*ast.ImportSpec)
			path, _ := strconv.Unquote(is.Path.Value)
			name := filepath.Base(path)
			if is.Name != nil {
				name = is.Name.Name
			}
			if _, mapped := pkgMap[path]; mapped && !used[name] && name != "_" && name != "." {
				continue
			}
			specs = append(specs, sp)
		}
		if !added {
			added = true
			if r.useVrt {
				specs = append(specs, &ast.ImportSpec{Name: ident("vrt"), Path: &ast.BasicLit{Kind: token.STRING, Value: `"verif/vrt"`}})
			}
			if r.useVnet {
				specs = append(specs, &ast.ImportSpec{Name: ident("vnet"), Path: &ast.BasicLit{Kind: token.STRING, Value: `"verif/vnet"`}})
			}
		}
		if len(specs) == 0 {
			continue
		}
		gd.Specs = specs
		gd.Lparen = 1
		decls = append(decls, gd)
	}
	if !added && (r.useVrt || r.useVnet) {
		gd := &ast.GenDecl{Tok: token.IMPORT, Lparen: 1}
		if r.useVrt {
			gd.Specs = append(gd.Specs, &ast.ImportSpec{Name: ident("vrt"), Path: &ast.BasicLit{Kind: token.STRING, Value: `"verif/vrt"`}})
		}
		if r.useVnet {
			gd.Specs = append(gd.Specs, &ast.ImportSpec{Name: ident("vnet"), Path: &ast.BasicLit{Kind: token.STRING, Value: `"verif/vnet"`}})
		}
		decls = append([]ast.Decl{gd}, decls...)
	}
	r.file.Decls = decls
	r.file.Imports = nil
}

// writeLiterals collects the string literals of a package: the values its code can tell apart by name.
func writeLiterals(dir, out string) error {
	if dir == "" {
		dir = "."
	}
	ents, err := os.ReadDir(dir)
	if err != nil {
		return err
	}
	fset := token.NewFileSet()
	set := map[string]bool{}
	pkgName := ""
	for _, en := range ents {
		n := en.Name()
		if en.IsDir() || !strings.HasSuffix(n, ".go") || strings.HasSuffix(n, "_test.go") {
			continue
		}
		af, err := parser.ParseFile(fset, filepath.Join(dir, n), nil, parser.SkipObjectResolution)
		if err != nil {
			return err
		}
		pkgName = af.Name.Name
		skip := map[*ast.BasicLit]bool{}
		ast.Inspect(af, func(nd ast.Node) bool {
			switch x := nd.(type) {
			case *ast.ImportSpec:
				skip[x.Path] = true
			case *ast.Field:
				if x.Tag != nil {
					skip[x.Tag] = true
				}
			case *ast.BasicLit:
				if x.Kind == token.STRING && !skip[x] {
					if v, err := strconv.Unquote(x.Value); err == nil {
						set[v] = true
					}
				}
			}
			return true
		})
	}
	var vals []string
	for v := range set {
		vals = append(vals, v)
	}
	sort.Strings(vals)
	var sb strings.Builder
	sb.WriteString("//go:build verif\n\n// Code generated by vinstr -literals. DO NOT EDIT.\n\npackage " + pkgName + "\n\nvar verifSrcLiterals = []string{\n")
	for _, v := range vals {
		sb.WriteString("\t" + strconv.Quote(v) + ",\n")
	}
	sb.WriteString("}\n")
	return os.WriteFile(out, []byte(sb.String()), 0o644)
}

func main() {
	touch := flag.String("touch", "", "comma separated field names whose accesses become Touch points")
	pkgdir := flag.String("pkg", "", "package directory to type-check (all non-test files)")
	literals := flag.String("literals", "", "write every string literal of the package's non-test source (struct tags and import paths excluded) to this Go file as var verifSrcLiterals, and exit")
	flag.Parse()
	if *literals != "" {
		if err := writeLiterals(*pkgdir, *literals); err != nil {
			fmt.Fprintln(os.Stderr, "vinstr:", err)
			os.Exit(2)
		}
		return
	}
	files := flag.Args()
	if len(files) == 0 {
		fmt.Fprintln(os.Stderr, "vinstr: no files")
		os.Exit(2)
	}
	touchSet := map[string]bool{}
	for _, t := range strings.Split(*touch, ",") {
		if t != "" {
			touchSet[t] = true
		}
	}
	fset := token.NewFileSet()
	target := map[string]bool{}
	for _, f := range files {
		abs, _ := filepath.Abs(f)
		target[abs] = true
	}
	// parse the whole package for type information
	var all []*ast.File
	parsed := map[string]*ast.File{}
	dir := *pkgdir
	if dir == "" {
		dir = filepath.Dir(files[0])
	}
	ents, err := os.ReadDir(dir)
	if err != nil {
		fmt.Fprintln(os.Stderr, "vinstr:", err)
		os.Exit(2)
	}
	for _, en := range ents {
		n := en.Name()
		if en.IsDir() || !strings.HasSuffix(n, ".go") || strings.HasSuffix(n, "_test.go") {
			continue
		}
		p, _ := filepath.Abs(filepath.Join(dir, n))
		af, err := parser.ParseFile(fset, p, nil, parser.SkipObjectResolution)
		if err != nil {
			fmt.Fprintln(os.Stderr, "vinstr: parse:", err)
			os.Exit(2)
		}
		all = append(all, af)
		parsed[p] = af
	}
	info := &types.Info{Types: map[ast.Expr]types.TypeAndValue{}, Uses: map[*ast.Ident]types.Object{}, Defs: map[*ast.Ident]types.Object{}}
	var terrs []error
	conf := types.Config{Importer: importer.ForCompiler(fset, "source", nil), Error: func(err error) { terrs = append(terrs, err) }}
	_, _ = conf.Check(all[0].Name.Name, fset, all, info)
	if len(terrs) > 0 {
		// the tree is supposed to compile; a type error means the importer could not
		// resolve something — do not guess.
		for i, e := range terrs {
			if i < 10 {
				fmt.Fprintln(os.Stderr, "vinstr: typecheck:", e)
			}
		}
		os.Exit(2)
	}
	failed := false
	for p, af := range parsed {
		if !target[p] {
			continue
		}
		r := &rw{fset: fset, file: af, fname: p, info: info, imports: map[string]string{}, touch: touchSet}
		for _, is := range af.Imports {
			path, _ := strconv.Unquote(is.Path.Value)
			name := filepath.Base(path)
			if is.Name != nil {
				name = is.Name.Name
			}
			r.imports[name] = path
		}
		for _, d := range af.Decls {
			r.children(d)
		}
		r.fixImports()
		if len(r.errs) > 0 {
			for _, e := range r.errs {
				fmt.Fprintln(os.Stderr, "vinstr:", e)
			}
			failed = true
			continue
		}
		var buf bytes.Buffer
		if err := format.Node(&buf, fset, af); err != nil {
			fmt.Fprintln(os.Stderr, "vinstr: print:", p, err)
			failed = true
			continue
		}
		out, err := format.Source(buf.Bytes())
		if err != nil {
			fmt.Fprintln(os.Stderr, "vinstr: format:", p, err)
			os.WriteFile(p+".bad", buf.Bytes(), 0644)
			failed = true
			continue
		}
		if err := os.WriteFile(p, out, 0644); err != nil {
			fmt.Fprintln(os.Stderr, "vinstr:", err)
			failed = true
		}
	}
	if failed {
		os.Exit(2)
	}
}
