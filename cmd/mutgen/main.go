// mutgen lists and applies small syntactic mutations of a Go source file (for the kill-rate campaign of the
// checks: see seeded/mutation_campaign.md). Usage:
//
//	mutgen -list file.go            prints one line per mutation: index, operator, line, description
//	mutgen -apply N file.go > out   writes the file with mutation N applied
package main

import (
	"bytes"
	"flag"
	"fmt"
	"go/ast"
	"go/format"
	"go/parser"
	"go/token"
	"os"
)

type mut struct {
	op, desc string
	line     int
	apply    func()
	undo     func()
}

func main() {
	list := flag.Bool("list", false, "list mutations")
	apply := flag.Int("apply", -1, "apply mutation N and print the file")
	flag.Parse()
	file := flag.Arg(0)
	fset := token.NewFileSet()
	f, err := parser.ParseFile(fset, file, nil, parser.ParseComments)
	if err != nil {
		fmt.Fprintln(os.Stderr, err)
		os.Exit(2)
	}
	var muts []mut
	add := func(n ast.Node, op, desc string, ap, un func()) {
		muts = append(muts, mut{op, desc, fset.Position(n.Pos()).Line, ap, un})
	}
	swap := map[token.Token]token.Token{token.EQL: token.NEQ, token.NEQ: token.EQL, token.LSS: token.LEQ, token.LEQ: token.LSS,
		token.GTR: token.GEQ, token.GEQ: token.GTR, token.LAND: token.LOR, token.LOR: token.LAND, token.ADD: token.SUB, token.SUB: token.ADD}
	ast.Inspect(f, func(n ast.Node) bool {
		switch x := n.(type) {
		case *ast.IfStmt:
			cond := x.Cond
			add(x, "negate-if", "if !(cond)", func() { x.Cond = &ast.UnaryExpr{Op: token.NOT, X: &ast.ParenExpr{X: cond}} }, func() { x.Cond = cond })
			if x.Else == nil && len(x.Body.List) > 0 {
				body := x.Body.List
				add(x, "empty-if-body", "if cond {}", func() { x.Body.List = nil }, func() { x.Body.List = body })
			}
		case *ast.BinaryExpr:
			if to, ok := swap[x.Op]; ok {
				if x.Op == token.ADD {
					if bl, ok := x.X.(*ast.BasicLit); ok && bl.Kind == token.STRING {
						return true
					}
					if bl, ok := x.Y.(*ast.BasicLit); ok && bl.Kind == token.STRING {
						return true
					}
				}
				from := x.Op
				add(x, "binop", fmt.Sprintf("%s -> %s", from, to), func() { x.Op = to }, func() { x.Op = from })
			}
		case *ast.BlockStmt:
			for i := range x.List {
				i := i
				st := x.List[i]
				switch s := st.(type) {
				case *ast.ExprStmt:
					if _, ok := s.X.(*ast.CallExpr); ok {
						add(st, "drop-call", "call statement removed", func() { x.List[i] = &ast.EmptyStmt{} }, func() { x.List[i] = st })
					}
				case *ast.AssignStmt:
					if s.Tok == token.ASSIGN || s.Tok == token.ADD_ASSIGN || s.Tok == token.SUB_ASSIGN {
						add(st, "drop-assign", "assignment removed", func() { x.List[i] = &ast.EmptyStmt{} }, func() { x.List[i] = st })
					}
				case *ast.IncDecStmt:
					add(st, "drop-incdec", "++/-- removed", func() { x.List[i] = &ast.EmptyStmt{} }, func() { x.List[i] = st })
				case *ast.BranchStmt:
					if s.Tok == token.CONTINUE || s.Tok == token.BREAK {
						add(st, "drop-branch", s.Tok.String()+" removed", func() { x.List[i] = &ast.EmptyStmt{} }, func() { x.List[i] = st })
					}
				case *ast.DeferStmt:
					add(st, "drop-defer", "defer removed", func() { x.List[i] = &ast.EmptyStmt{} }, func() { x.List[i] = st })
				case *ast.GoStmt:
					call := s.Call
					add(st, "go-to-call", "go f() -> f()", func() { x.List[i] = &ast.ExprStmt{X: call} }, func() { x.List[i] = st })
				}
			}
		case *ast.BasicLit:
			if x.Kind == token.INT && (x.Value == "0" || x.Value == "1") {
				old := x.Value
				nv := "1"
				if old == "1" {
					nv = "0"
				}
				add(x, "int-lit", old+" -> "+nv, func() { x.Value = nv }, func() { x.Value = old })
			}
		case *ast.Ident:
			if x.Name == "true" || x.Name == "false" {
				old := x.Name
				nv := "false"
				if old == "false" {
					nv = "true"
				}
				add(x, "bool-lit", old+" -> "+nv, func() { x.Name = nv }, func() { x.Name = old })
			}
		}
		return true
	})
	if *list {
		for i, m := range muts {
			fmt.Printf("%d\t%s\t%d\t%s\n", i, m.op, m.line, m.desc)
		}
		return
	}
	if *apply < 0 || *apply >= len(muts) {
		fmt.Fprintln(os.Stderr, "mutation index out of range")
		os.Exit(2)
	}
	muts[*apply].apply()
	var buf bytes.Buffer
	if err := format.Node(&buf, fset, f); err != nil {
		fmt.Fprintln(os.Stderr, err)
		os.Exit(2)
	}
	os.Stdout.Write(buf.Bytes())
}
