#!/bin/bash
# usage: seedimport.sh <PROP> <VARIANT>   imports /tmp/wt-<PROP>/_out/<VARIANT> as seeded/<prop>-<variant>-agent and verifies:
#   patch applies, repo tests pass with it (isolated network namespace), demo fails with it and passes without.
p=$1; v=$2; src=/tmp/wt-$p/_out/$v; name=$(echo "$p-$v-agent" | tr 'A-Z' 'a-z')
[ -f $src/patch.diff ] || { echo "no patch in $src"; exit 1; }
dst=/verif/seeded/$name; mkdir -p $dst; cp $src/patch.diff $dst/patch.diff; cp $src/README.md $dst/README.md 2>/dev/null
for f in $src/*.go; do [ -f "$f" ] && cp $f $dst/$(basename $f).txt; done
export GOFLAGS=-mod=mod GOPROXY=off GOSUMDB=off GOTOOLCHAIN=local
tmp=/tmp/seedimport-$$; rm -rf $tmp; mkdir -p $tmp; rsync -a --exclude .git --exclude _out /repo/ $tmp/clean/; rsync -a --exclude .git --exclude _out /repo/ $tmp/mut/
(cd $tmp/mut && patch -p1 -s < $dst/patch.diff) || { echo "PATCH FAILS"; rm -rf $tmp; exit 1; }
netrun() { unshare -n sh -c "ip link set lo up; $1"; }
suite="pass"; for i in 1 2 3; do (cd $tmp/mut && netrun "go test -vet=off -count=1 ./... >/dev/null 2>&1") || suite="FAIL(run $i)"; done
demo_pkg=.; grep -q "^package stanza" $src/demo_test.go 2>/dev/null && demo_pkg=./stanza
demo_with="n/a"; demo_without="n/a"
if [ -f $src/demo_test.go ]; then
  tests=$(grep -o "^func Test[A-Za-z0-9_]*" $src/demo_test.go | sed 's/func //' | paste -sd'|')
  cp $src/demo_test.go $tmp/mut/$demo_pkg/zz_demo_test.go; cp $src/demo_test.go $tmp/clean/$demo_pkg/zz_demo_test.go
  (cd $tmp/mut && netrun "timeout 300 go test -vet=off -count=1 -run '^($tests)\$' $demo_pkg >/dev/null 2>&1") && demo_with="PASSES(bad)" || demo_with="fails(good)"
  (cd $tmp/clean && netrun "timeout 300 go test -vet=off -count=1 -run '^($tests)\$' $demo_pkg >/dev/null 2>&1") && demo_without="passes(good)" || demo_without="FAILS(bad)"
fi
python3 - "$dst" "$p" "$suite" "$demo_with" "$demo_without" <<'PY'
import json,sys,os
dst,p,suite,dw,dwo=sys.argv[1:6]
needs=""
rd=os.path.join(dst,"README.md")
if os.path.exists(rd): needs=open(rd).read()[:1500]
json.dump({"property":[p],"expect":"violation","origin":"independent sub-agent (given only the property text and a scratch worktree)",
 "needs":"see README.md","verified":{"repo_test_suite_with_change_3_runs_isolated_netns":suite,"demo_with_change":dw,"demo_without_change":dwo,
 "how":"seedimport.sh: patch applied to a scratch copy of /repo HEAD; go test -vet=off -count=1 ./... three times inside unshare -n; demo_test.go dropped into the package and run with and without the patch"}},
 open(os.path.join(dst,"meta.json"),"w"),indent=1)
PY
echo "$name suite=$suite demo_with=$demo_with demo_without=$demo_without"
rm -rf $tmp
