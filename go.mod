module verif

go 1.21
