package vrt

import (
	"context"
	"fmt"
	"math/rand"
	"time"
)

// Virtual clock: time advances only when no thread is enabled, jumping to the
// earliest pending deadline.

var epoch = time.Date(2020, 1, 1, 0, 0, 0, 0, time.UTC)

type vtimer struct {
	seq      int
	deadline time.Duration
	period   time.Duration
	ch       chan time.Time
	cs       *chanState
	fn       func()
	active   bool
}

type sleepOp struct{ until time.Duration }

func (o sleepOp) enabled(e *Exec, t *thread) bool { return e.clock >= o.until }
func (o sleepOp) desc() string                    { return fmt.Sprintf("sleep-until %s", o.until) }

// MaxVirtual bounds the virtual time of one execution.
var MaxVirtual = 48 * time.Hour

func (e *Exec) advanceClock() bool {
	var next time.Duration = -1
	for _, tm := range e.timers {
		if tm.active && (next < 0 || tm.deadline < next) {
			next = tm.deadline
		}
	}
	for _, t := range e.threads {
		if t.state == tsParked {
			if so, ok := t.op.(sleepOp); ok && (next < 0 || so.until < next) {
				next = so.until
			}
		}
	}
	if next < 0 {
		return false
	}
	if next > MaxVirtual {
		return false
	}
	if next > e.clock {
		e.clock = next
	}
	// fire everything due, in creation order
	for _, tm := range e.timers {
		if !tm.active || tm.deadline > e.clock {
			continue
		}
		if tm.fn != nil {
			tm.active = false
			e.spawn("afterfunc", tm.fn)
			continue
		}
		if len(tm.cs.buf) < tm.cs.cap {
			tm.cs.buf = append(tm.cs.buf, epoch.Add(e.clock))
		}
		e.tracef("timer %s fires", tm.cs.name)
		if tm.period > 0 {
			tm.deadline += tm.period
		} else {
			tm.active = false
		}
	}
	// compact
	j := 0
	for _, tm := range e.timers {
		if tm.active {
			e.timers[j] = tm
			j++
		}
	}
	e.timers = e.timers[:j]
	return true
}

func (e *Exec) newTimer(d, period time.Duration, fn func()) *vtimer {
	e.tseq++
	tm := &vtimer{seq: e.tseq, deadline: e.clock + d, period: period, fn: fn, active: true}
	if fn == nil {
		tm.ch = make(chan time.Time, 1)
		tm.cs = e.chanOf(tm.ch)
		tm.cs.name = fmt.Sprintf("timer%d", tm.seq)
	}
	e.timers = append(e.timers, tm)
	return tm
}

func (e *Exec) stopTimer(tm *vtimer) bool {
	was := tm.active
	tm.active = false
	return was
}

func Now() time.Time {
	if cx == nil {
		return time.Now()
	}
	return epoch.Add(cx.clock)
}

// VNow returns the virtual time elapsed in the current execution.
func VNow() time.Duration {
	if cx == nil {
		return 0
	}
	return cx.clock
}

func Since(t time.Time) time.Duration { return Now().Sub(t) }
func Until(t time.Time) time.Duration { return t.Sub(Now()) }

func Sleep(d time.Duration) {
	e := cx
	if e == nil {
		time.Sleep(d)
		return
	}
	if e.cur == nil || e.cur.killed {
		return
	}
	if d < 0 {
		d = 0
	}
	e.tracef("T%d sleep %s", e.cur.id, d)
	e.park(sleepOp{until: e.clock + d})
}

type Ticker struct {
	C  <-chan time.Time
	tm *vtimer
	rt *time.Ticker
}

func NewTicker(d time.Duration) *Ticker {
	e := cx
	if e == nil {
		rt := time.NewTicker(d)
		return &Ticker{C: rt.C, rt: rt}
	}
	if d <= 0 {
		panic("non-positive interval for NewTicker")
	}
	tm := e.newTimer(d, d, nil)
	return &Ticker{C: tm.ch, tm: tm}
}

func (t *Ticker) Stop() {
	if t.rt != nil {
		t.rt.Stop()
		return
	}
	if cx != nil {
		cx.stopTimer(t.tm)
	}
}

func (t *Ticker) Reset(d time.Duration) {
	if t.rt != nil {
		t.rt.Reset(d)
		return
	}
	e := cx
	if e == nil {
		return
	}
	t.tm.deadline = e.clock + d
	t.tm.period = d
	if !t.tm.active {
		t.tm.active = true
		e.timers = append(e.timers, t.tm)
	}
}

func Tick(d time.Duration) <-chan time.Time { return NewTicker(d).C }

type Timer struct {
	C  <-chan time.Time
	tm *vtimer
	rt *time.Timer
}

func NewTimer(d time.Duration) *Timer {
	e := cx
	if e == nil {
		rt := time.NewTimer(d)
		return &Timer{C: rt.C, rt: rt}
	}
	tm := e.newTimer(d, 0, nil)
	return &Timer{C: tm.ch, tm: tm}
}

func After(d time.Duration) <-chan time.Time { return NewTimer(d).C }

func AfterFunc(d time.Duration, f func()) *Timer {
	e := cx
	if e == nil {
		return &Timer{rt: time.AfterFunc(d, f)}
	}
	return &Timer{tm: e.newTimer(d, 0, f)}
}

func (t *Timer) Stop() bool {
	if t.rt != nil {
		return t.rt.Stop()
	}
	if cx == nil {
		return false
	}
	return cx.stopTimer(t.tm)
}

func (t *Timer) Reset(d time.Duration) bool {
	if t.rt != nil {
		return t.rt.Reset(d)
	}
	e := cx
	if e == nil {
		return false
	}
	was := t.tm.active
	t.tm.deadline = e.clock + d
	if !t.tm.active {
		t.tm.active = true
		e.timers = append(e.timers, t.tm)
	}
	return was
}

// RandIntn replaces math/rand.Intn: the answer is an environment choice among
// {0, n/2, n-1}; the argument is logged for the oracle.
var RandHook func(n int) int

func RandIntn(n int) int {
	if RandHook != nil {
		return RandHook(n)
	}
	if cx == nil {
		return rand.Intn(n)
	}
	if n <= 0 {
		panic("invalid argument to Intn")
	}
	switch Choose("rand", 3) {
	case 1:
		return n / 2
	case 2:
		return n - 1
	}
	return 0
}

// ---------------------------------------------------------------------------
// Contexts known to the runtime

type vctx struct {
	parent   context.Context
	done     chan struct{}
	err      error
	deadline time.Time
	hasDl    bool
	tm       *vtimer
}

func (c *vctx) Deadline() (time.Time, bool) { return c.deadline, c.hasDl }
func (c *vctx) Done() <-chan struct{}       { return c.done }
func (c *vctx) Err() error                  { return c.err }
func (c *vctx) Value(k any) any {
	if c.parent != nil {
		return c.parent.Value(k)
	}
	return nil
}

func Background() context.Context { return context.Background() }
func TODO() context.Context       { return context.TODO() }

func (c *vctx) cancel(err error) {
	if c.err != nil {
		return
	}
	c.err = err
	e := cx
	if e == nil {
		close(c.done)
		return
	}
	if e.cur != nil && e.cur.killed {
		return
	}
	cs := e.chanOf(c.done)
	if !cs.closed {
		cs.closed = true // closing a context is not a blocking operation; receivers become enabled
	}
}

func WithCancel(parent context.Context) (context.Context, context.CancelFunc) {
	if cx == nil {
		return context.WithCancel(parent)
	}
	c := &vctx{parent: parent, done: make(chan struct{})}
	cx.chanOf(c.done)
	propagate(parent, c)
	return c, func() { Yield("cancel"); c.cancel(context.Canceled) }
}

func propagate(parent context.Context, c *vctx) {
	if p, ok := parent.(*vctx); ok && cx != nil {
		if p.err != nil {
			c.cancel(p.err)
			return
		}
		// child follows parent: a helper thread waits for the parent
		e := cx
		e.spawn("ctx-propagate", func() {
			i := Select(false, RecvCase(p.done), RecvCase(c.done))
			if i == 0 {
				c.cancel(p.err)
			}
		})
	}
}

func WithDeadline(parent context.Context, d time.Time) (context.Context, context.CancelFunc) {
	if cx == nil {
		return context.WithDeadline(parent, d)
	}
	return WithTimeout(parent, d.Sub(Now()))
}

func WithTimeout(parent context.Context, d time.Duration) (context.Context, context.CancelFunc) {
	e := cx
	if e == nil {
		return context.WithTimeout(parent, d)
	}
	c := &vctx{parent: parent, done: make(chan struct{}), deadline: Now().Add(d), hasDl: true}
	e.chanOf(c.done)
	propagate(parent, c)
	c.tm = e.newTimer(d, 0, func() { c.cancel(context.DeadlineExceeded) })
	return c, func() {
		Yield("cancel")
		if cx != nil && c.tm != nil {
			cx.stopTimer(c.tm)
		}
		c.cancel(context.Canceled)
	}
}
