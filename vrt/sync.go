package vrt

import (
	"fmt"
	"sync"
)

// Mutex replaces sync.Mutex. Lock is a scheduling point, enabled when the mutex is free.
type Mutex struct {
	locked bool
	id     int
	owner  *Exec
	real   sync.Mutex
}

// bind attaches the mutex to the current execution (state left over from an
// earlier execution, e.g. in a package-level variable, is discarded).
func (m *Mutex) bind(e *Exec) {
	if m.owner != e {
		m.owner = e
		m.locked = false
		e.mseq++
		m.id = e.mseq
	}
}

type lockOp struct{ m *Mutex }

func (o lockOp) enabled(*Exec, *thread) bool { return !o.m.locked }
func (o lockOp) desc() string                { return fmt.Sprintf("Lock(m%d)", o.m.id) }

func (m *Mutex) Lock() {
	e := cx
	if e == nil {
		m.real.Lock()
		return
	}
	if e.cur == nil || e.cur.killed {
		return
	}
	m.bind(e)
	e.park(lockOp{m})
	m.locked = true
}

func (m *Mutex) TryLock() bool {
	e := cx
	if e == nil {
		return m.real.TryLock()
	}
	if e.cur == nil || e.cur.killed {
		return true
	}
	m.bind(e)
	e.park(yieldOp{"TryLock"})
	if m.locked {
		return false
	}
	m.locked = true
	return true
}

func (m *Mutex) Unlock() {
	e := cx
	if e == nil {
		m.real.Unlock()
		return
	}
	if e.cur == nil || e.cur.killed {
		return
	}
	m.bind(e)
	if !m.locked {
		panic("sync: unlock of unlocked mutex")
	}
	m.locked = false
}

// RWMutex replaces sync.RWMutex with Go's semantics: a waiting writer blocks new readers.
type RWMutex struct {
	w        bool
	r        int
	wWaiting int
	id       int
	owner    *Exec
	real     sync.RWMutex
}

func (m *RWMutex) bind(e *Exec) {
	if m.owner != e {
		m.owner = e
		m.w, m.r, m.wWaiting = false, 0, 0
		e.mseq++
		m.id = e.mseq
	}
}

type wlockOp struct{ m *RWMutex }

func (o wlockOp) enabled(*Exec, *thread) bool { return !o.m.w && o.m.r == 0 }
func (o wlockOp) desc() string                { return fmt.Sprintf("Lock-wait(rw%d)", o.m.id) }

type rlockOp struct{ m *RWMutex }

func (o rlockOp) enabled(*Exec, *thread) bool { return !o.m.w && o.m.wWaiting == 0 }
func (o rlockOp) desc() string                { return fmt.Sprintf("RLock(rw%d)", o.m.id) }

func (m *RWMutex) Lock() {
	e := cx
	if e == nil {
		m.real.Lock()
		return
	}
	if e.cur == nil || e.cur.killed {
		return
	}
	m.bind(e)
	// Two phases, as in sync.RWMutex: the call announces the writer (from then on new
	// readers are held back), then waits for the lock to drain. A thread parked at the
	// first point has not called Lock yet and must not hold readers back.
	e.park(yieldOp{fmt.Sprintf("Lock(rw%d)", m.id)})
	if !m.w && m.r == 0 && m.wWaiting == 0 {
		m.w = true
		return
	}
	m.wWaiting++
	e.park(wlockOp{m})
	m.wWaiting--
	m.w = true
}

func (m *RWMutex) Unlock() {
	e := cx
	if e == nil {
		m.real.Unlock()
		return
	}
	if e.cur == nil || e.cur.killed {
		return
	}
	m.bind(e)
	if !m.w {
		panic("sync: Unlock of unlocked RWMutex")
	}
	m.w = false
}

func (m *RWMutex) RLock() {
	e := cx
	if e == nil {
		m.real.RLock()
		return
	}
	if e.cur == nil || e.cur.killed {
		return
	}
	m.bind(e)
	e.park(rlockOp{m})
	m.r++
}

func (m *RWMutex) RUnlock() {
	e := cx
	if e == nil {
		m.real.RUnlock()
		return
	}
	if e.cur == nil || e.cur.killed {
		return
	}
	m.bind(e)
	if m.r <= 0 {
		panic("sync: RUnlock of unlocked RWMutex")
	}
	m.r--
}

// RLocker mirrors sync.RWMutex.RLocker.
func (m *RWMutex) RLocker() sync.Locker { return rlocker{m} }

type rlocker struct{ m *RWMutex }

func (r rlocker) Lock()   { r.m.RLock() }
func (r rlocker) Unlock() { r.m.RUnlock() }

// WaitGroup replaces sync.WaitGroup.
type WaitGroup struct {
	n     int
	owner *Exec
	real  sync.WaitGroup
}

type wgOp struct{ w *WaitGroup }

func (o wgOp) enabled(*Exec, *thread) bool { return o.w.n <= 0 }
func (o wgOp) desc() string                { return "WaitGroup.Wait" }

func (w *WaitGroup) Add(d int) {
	if cx == nil {
		w.real.Add(d)
		return
	}
	if cx.cur == nil || cx.cur.killed {
		return
	}
	if w.owner != cx {
		w.owner, w.n = cx, 0
	}
	w.n += d
	if w.n < 0 {
		panic("sync: negative WaitGroup counter")
	}
}

func (w *WaitGroup) Done() { w.Add(-1) }

func (w *WaitGroup) Wait() {
	e := cx
	if e == nil {
		w.real.Wait()
		return
	}
	if e.cur == nil || e.cur.killed {
		return
	}
	if w.owner != e {
		w.owner, w.n = e, 0
	}
	e.park(wgOp{w})
}

// Once replaces sync.Once.
type Once struct {
	done  bool
	owner *Exec
	m     Mutex
	real  sync.Once
}

func (o *Once) Do(f func()) {
	if cx == nil {
		o.real.Do(f)
		return
	}
	if o.owner != cx {
		o.owner, o.done = cx, false
	}
	if o.done {
		return
	}
	o.m.Lock()
	defer o.m.Unlock()
	if !o.done {
		defer func() { o.done = true }()
		f()
	}
}

// Cond replaces sync.Cond.
type Cond struct {
	L       sync.Locker
	waiters []*condWaiter
}

type condWaiter struct{ woken bool }

func NewCond(l sync.Locker) *Cond { return &Cond{L: l} }

func (c *Cond) Wait() {
	e := cx
	if e == nil {
		panic("vrt.Cond outside execution is not supported")
	}
	if e.cur == nil || e.cur.killed {
		return
	}
	w := &condWaiter{}
	c.waiters = append(c.waiters, w)
	c.L.Unlock()
	e.park(funcOp{"Cond.Wait", func() bool { return w.woken }})
	c.L.Lock()
}

func (c *Cond) Signal() {
	if len(c.waiters) > 0 {
		c.waiters[0].woken = true
		c.waiters = c.waiters[1:]
	}
}

func (c *Cond) Broadcast() {
	for _, w := range c.waiters {
		w.woken = true
	}
	c.waiters = nil
}

// Pool replaces sync.Pool with a deterministic LIFO free list (the real one has per-P
// caches and is drained by the garbage collector: its behaviour is not replayable).
type Pool struct {
	New   func() any
	items []any
	owner *Exec
	real  sync.Pool
}

func (p *Pool) Get() any {
	if cx == nil {
		if v := p.real.Get(); v != nil {
			return v
		}
		if p.New != nil {
			return p.New()
		}
		return nil
	}
	if p.owner != cx {
		p.owner, p.items = cx, nil
	}
	Yield("Pool.Get")
	if n := len(p.items); n > 0 {
		v := p.items[n-1]
		p.items = p.items[:n-1]
		return v
	}
	if p.New != nil {
		return p.New()
	}
	return nil
}

func (p *Pool) Put(v any) {
	if cx == nil {
		p.real.Put(v)
		return
	}
	if cx.cur == nil || cx.cur.killed {
		return
	}
	if p.owner != cx {
		p.owner, p.items = cx, nil
	}
	Yield("Pool.Put")
	p.items = append(p.items, v)
}
