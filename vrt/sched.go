// Package vrt is a virtual runtime for bounded exhaustive exploration of Go code
// whose concurrency primitives, clock, network and randomness have been redirected
// to it (by cmd/vinstr). Exactly one managed thread runs at a time; a thread that
// reaches a scheduling point parks and the scheduler (running on the explorer's
// goroutine) decides who goes next. All decisions with more than one alternative
// are recorded in a choice sequence so that an execution can be replayed exactly.
package vrt

import (
	"fmt"
	"hash/fnv"
	"os"
	"runtime"
	"runtime/debug"
	"sort"
	"strings"
	"time"
)

type tstate int

const (
	tsParked  tstate = iota // waiting at a point with a pending op
	tsReady                 // op already completed by a partner; always enabled
	tsRunning               // currently executing
	tsDone
)

type op interface {
	enabled(e *Exec, t *thread) bool
	desc() string
}

type thread struct {
	id      int
	site    string
	state   tstate
	op      op
	wake    chan struct{}
	killed  bool
	idle    bool // parked in WaitIdle
	started bool
	// result of an op completed by a partner
	resVal   any
	resOk    bool
	resCase  int
	resPanic string
	sigCache string
}

// Decision describes one recorded choice point.
type Decision struct {
	Kind  string // "sched" or the Choose label
	N     int    // number of alternatives
	Cost  []int8 // cost of each alternative (0 or 1)
	Taken int
	Desc  string
}

type PanicInfo struct {
	Thread int
	Site   string
	Value  string
	Stack  string
}

type BlockedInfo struct {
	Thread int
	Site   string
	Op     string
}

// Exec is one execution.
type Exec struct {
	freeSel int // selects with several ready cases met so far in this execution
	threads []*thread
	cur     *thread
	parked  chan struct{}

	clock  time.Duration
	timers []*vtimer
	tseq   int
	mseq   int
	chans  map[uintptr]*chanState
	keep   []any

	prefix     []int
	Decisions  []Decision
	steps      int
	horizon    int
	tracing    bool
	Trace      []string
	Obs        []string
	obsHash    uint64
	touchOn    map[string]bool
	timeRace   bool
	quiet      bool
	freeSwitch bool

	Fails      []Failure
	Panic      *PanicInfo
	Deadlock   bool // main thread blocked forever
	HorizonHit bool
	MainDone   bool
	Blocked    []BlockedInfo // threads still parked when the execution ended
	aborted    bool
	diverged   string

	states map[uint64]struct{}
	Data   map[string]any // scratch for harnesses
}

type Failure struct {
	Key    string
	Detail string
}

// cur is the running execution (nil outside an exploration: pass-through mode).
var cx *Exec

// Active reports whether code currently runs under the controlled scheduler.
func Active() bool { return cx != nil }

// X returns the current execution (nil in pass-through mode).
func X() *Exec { return cx }

type startOp struct{}

func (startOp) enabled(*Exec, *thread) bool { return true }
func (startOp) desc() string                { return "start" }

type yieldOp struct{ what string }

func (yieldOp) enabled(*Exec, *thread) bool { return true }
func (o yieldOp) desc() string              { return o.what }

type idleOp struct{}

func (idleOp) enabled(e *Exec, t *thread) bool { return false } // handled specially
func (idleOp) desc() string                    { return "waitidle" }

type neverOp struct{ what string }

func (neverOp) enabled(*Exec, *thread) bool { return false }
func (o neverOp) desc() string              { return o.what }

func (e *Exec) tracef(format string, a ...any) {
	if e.tracing {
		e.Trace = append(e.Trace, fmt.Sprintf("[%6s] ", e.clock)+fmt.Sprintf(format, a...))
	}
}

// park publishes the pending op of the running thread and waits to be scheduled.
// On return the thread runs exclusively and must apply the op's effect itself.
func (e *Exec) park(o op) {
	t := e.cur
	if t == nil {
		panic("vrt: park outside managed thread")
	}
	if t.killed {
		return
	}
	t.op = o
	t.state = tsParked
	t.sigCache = ""
	e.parked <- struct{}{}
	<-t.wake
	if t.killed {
		runtime.Goexit()
	}
}

// Yield is an always-enabled scheduling point.
func Yield(what string) {
	e := cx
	if e == nil || e.cur == nil || e.cur.killed {
		return
	}
	e.park(yieldOp{what})
}

// Touch marks an access to unsynchronised shared state; it is a scheduling point
// only when the scenario enabled that name (TouchOn).
func Touch(name string) {
	e := cx
	if e == nil || e.cur == nil || e.cur.killed || !e.touchOn[name] {
		return
	}
	e.park(yieldOp{"touch " + name})
}

// Go starts a managed thread.
func Go(site string, f func()) {
	e := cx
	if e == nil {
		go f()
		return
	}
	if e.cur != nil && e.cur.killed {
		return
	}
	t := e.spawn(site, f)
	e.tracef("T%d go T%d %s", e.cur.id, t.id, site)
	e.park(yieldOp{"go"})
}

func (e *Exec) spawn(site string, f func()) *thread {
	t := &thread{id: len(e.threads), site: site, state: tsParked, op: startOp{}, wake: make(chan struct{}), resCase: noRes}
	e.threads = append(e.threads, t)
	go func() {
		defer func() {
			if r := recover(); r != nil {
				if !t.killed && e.Panic == nil {
					e.Panic = &PanicInfo{Thread: t.id, Site: t.site, Value: fmt.Sprint(r), Stack: string(debug.Stack())}
					e.aborted = true
				}
			}
			t.state = tsDone
			e.parked <- struct{}{}
		}()
		<-t.wake
		if t.killed {
			return
		}
		f()
	}()
	return t
}

// WaitIdle parks the calling thread until no other thread is enabled (time does
// not advance while waiting).
func WaitIdle() {
	e := cx
	if e == nil || e.cur == nil || e.cur.killed {
		return
	}
	e.cur.idle = true
	e.park(idleOp{})
	e.cur.idle = false
}

// Log appends to the observation log of the execution.
func Log(format string, a ...any) {
	e := cx
	if e == nil {
		return
	}
	s := fmt.Sprintf(format, a...)
	e.Obs = append(e.Obs, s)
	h := fnv.New64a()
	var b [8]byte
	for i := 0; i < 8; i++ {
		b[i] = byte(e.obsHash >> (8 * i))
	}
	h.Write(b[:])
	h.Write([]byte(s))
	e.obsHash = h.Sum64()
	e.tracef("T%d obs %s", e.curID(), s)
}

func (e *Exec) curID() int {
	if e.cur == nil {
		return -1
	}
	return e.cur.id
}

// Fail records an oracle violation for the current execution.
func Fail(key, format string, a ...any) {
	e := cx
	if e == nil {
		panic("vrt.Fail outside execution: " + key)
	}
	e.Fails = append(e.Fails, Failure{Key: key, Detail: fmt.Sprintf(format, a...)})
	e.tracef("FAIL %s: %s", key, fmt.Sprintf(format, a...))
}

// Choose is an environment choice with n alternatives; alternative 0 is the default
// (free), every other one costs one deviation.
func Choose(label string, n int) int {
	return chooseCost(label, n, 1)
}

// ChooseFree is an environment choice whose alternatives are all free.
func ChooseFree(label string, n int) int {
	return chooseCost(label, n, 0)
}

func chooseCost(label string, n int, c int8) int {
	e := cx
	if e == nil || n <= 1 {
		return 0
	}
	if e.cur != nil && e.cur.killed {
		return 0
	}
	cost := make([]int8, n)
	for i := 1; i < n; i++ {
		cost[i] = c
	}
	return e.decide(label, n, cost, "")
}

func (e *Exec) decide(kind string, n int, cost []int8, desc string) int {
	i := len(e.Decisions)
	taken := 0
	if i < len(e.prefix) {
		taken = e.prefix[i]
		if taken >= n {
			e.diverged = fmt.Sprintf("decision %d (%s): replayed choice %d but only %d alternatives", i, kind, taken, n)
			e.aborted = true
			taken = 0
		}
	}
	e.Decisions = append(e.Decisions, Decision{Kind: kind, N: n, Cost: cost, Taken: taken, Desc: desc})
	if e.tracing && n > 1 {
		e.tracef("choice #%d %s -> %d/%d %s", i, kind, taken, n, desc)
	}
	return taken
}

func (e *Exec) isEnabled(t *thread) bool {
	switch t.state {
	case tsReady:
		return true
	case tsParked:
		if t.idle {
			return false
		}
		return t.op.enabled(e, t)
	}
	return false
}

// stateHash summarises the global state at a scheduling point: observation log so
// far plus every thread's pending op.
func (e *Exec) stateHash() uint64 {
	h := fnv.New64a()
	var b [8]byte
	for i := 0; i < 8; i++ {
		b[i] = byte(e.obsHash >> (8 * i))
	}
	h.Write(b[:])
	for _, t := range e.threads {
		if t.sigCache == "" {
			switch t.state {
			case tsDone:
				t.sigCache = "D"
			case tsReady:
				t.sigCache = "R"
			default:
				t.sigCache = t.site + "|" + t.op.desc()
			}
		}
		h.Write([]byte(t.sigCache))
		h.Write([]byte{0})
	}
	return h.Sum64()
}

// loop runs the execution to its end on the caller's goroutine.
func (e *Exec) loop() {
	var last *thread
	for {
		if e.aborted {
			break
		}
		if e.threads[0].state == tsDone {
			e.MainDone = true
			break
		}
		e.steps++
		progress++
		if e.steps > e.horizon {
			e.HorizonHit = true
			break
		}
		// enabled set in canonical order
		var en []*thread
		lastEnabled := false
		if last != nil && e.isEnabled(last) {
			en = append(en, last)
			lastEnabled = true
		}
		for _, t := range e.threads {
			if t != last && e.isEnabled(t) {
				en = append(en, t)
			}
		}
		if len(en) == 0 {
			// idle waiters next
			// highest id first: helper threads settle before the orchestrating main thread resumes
			var iw *thread
			for _, t := range e.threads {
				if t.state == tsParked && t.idle {
					iw = t
				}
			}
			if iw != nil {
				en = append(en, iw)
			} else if e.advanceClock() {
				continue
			} else {
				// quiescent with main not done: main is blocked forever
				e.Deadlock = true
				break
			}
		}
		if e.states != nil {
			e.states[e.stateHash()] = struct{}{}
		}
		pick := 0
		if e.quiet && lastEnabled {
			en = en[:1]
		}
		if len(en) > 1 {
			cost := make([]int8, len(en))
			// Default: every departure from the deterministic default schedule (keep running,
			// else lowest thread id) costs one unit ("delay bounding"). With FreeSwitch only
			// preemptions cost (CHESS-style preemption bounding): affordable for small harnesses.
			if lastEnabled || !e.freeSwitch {
				for i := 1; i < len(en); i++ {
					cost[i] = 1
				}
			}
			d := ""
			if e.tracing {
				var sb strings.Builder
				for i, t := range en {
					if i > 0 {
						sb.WriteString(" | ")
					}
					fmt.Fprintf(&sb, "T%d:%s", t.id, t.opDesc())
				}
				d = sb.String()
			}
			pick = e.decide("sched", len(en), cost, d)
			if e.aborted {
				break
			}
		}
		t := en[pick]
		e.tracef("T%d run %s", t.id, t.opDesc())
		last = t
		e.cur = t
		t.state = tsRunning
		t.wake <- struct{}{}
		<-e.parked
		e.cur = nil
	}
	e.finish()
}

func (t *thread) opDesc() string {
	if t.state == tsReady {
		return "resume"
	}
	if t.op == nil {
		return "?"
	}
	return t.op.desc()
}

// finish records who is still blocked and tears down leftover goroutines.
func (e *Exec) finish() {
	for _, t := range e.threads {
		if t.state == tsParked || t.state == tsReady {
			e.Blocked = append(e.Blocked, BlockedInfo{Thread: t.id, Site: t.site, Op: t.opDesc()})
		}
	}
	for _, t := range e.threads {
		if t.state == tsDone {
			continue
		}
		t.killed = true
		e.cur = t
		t.wake <- struct{}{}
		<-e.parked
	}
	e.cur = nil
}

// ---------------------------------------------------------------------------
// Exploration

type Options struct {
	Name     string
	Bound    int // maximal preemptions + deviations
	Horizon  int // scheduling steps per execution
	MaxExecs int // 0 = unlimited
	Deadline time.Time
	TouchOn  []string
	Trace    bool
	// FreeSwitch makes switches away from a blocked or finished thread free (only
	// preemptions count against Bound); the default counts every non-default choice.
	FreeSwitch bool
	Prefix     []int // replay exactly this prefix (with Bound<0: single run)
	Single     bool
	// Subtree sharding: prefixes shorter than SplitDepth are explored by every shard
	// (counted by shard 0 only); each subtree rooted at the first prefix of length
	// >= SplitDepth belongs to exactly one shard.
	SplitDepth int
	Shard      int
	NShard     int
}

type Violation struct {
	Scenario string   `json:"scenario"`
	Key      string   `json:"key"`
	Detail   string   `json:"detail"`
	Choices  []int    `json:"choices"`
	Trace    []string `json:"trace,omitempty"`
	Obs      []string `json:"obs,omitempty"`
}

type Stats struct {
	Executions   int
	Transitions  int
	MaxDepth     int
	States       map[uint64]struct{}
	Outcomes     map[uint64]struct{}
	Violations   []Violation
	Capped       string
	Internal     string // machinery error (divergence, nondeterminism)
	SampleObs    []string
	SampleChoice []int
}

// Verdict lets a scenario turn the end state of an execution into failures.
type Verdict func(e *Exec)

// RunOnce performs one execution of body following prefix.
func RunOnce(opt Options, prefix []int, body func(), states map[uint64]struct{}) *Exec {
	if cx != nil {
		panic("vrt: nested execution")
	}
	e := &Exec{
		parked:     make(chan struct{}),
		chans:      map[uintptr]*chanState{},
		prefix:     prefix,
		horizon:    opt.Horizon,
		tracing:    opt.Trace,
		touchOn:    map[string]bool{},
		states:     states,
		Data:       map[string]any{},
		freeSwitch: opt.FreeSwitch,
	}
	if e.horizon == 0 {
		e.horizon = 50000
	}
	for _, n := range opt.TouchOn {
		e.touchOn[n] = true
	}
	startWatchdog()
	cx = e
	e.spawn("main", body)
	e.loop()
	cx = nil
	return e
}

func obsHashOf(e *Exec) uint64 {
	h := fnv.New64a()
	for _, s := range e.Obs {
		h.Write([]byte(s))
		h.Write([]byte{0})
	}
	for _, f := range e.Fails {
		h.Write([]byte(f.Key))
	}
	if e.Panic != nil {
		h.Write([]byte("panic"))
	}
	if e.Deadlock {
		h.Write([]byte("deadlock"))
	}
	return h.Sum64()
}

// Explore enumerates every execution of body within opt.Bound and applies verdict
// at the end of each.
func Explore(opt Options, body func(), verdict Verdict, st *Stats) {
	if st.States == nil {
		st.States = map[uint64]struct{}{}
		st.Outcomes = map[uint64]struct{}{}
	}
	seenKeys := map[string]bool{}
	type item struct {
		prefix []int
		owned  bool
	}
	sharded := opt.SplitDepth > 0 && opt.NShard > 1
	stack := []item{{prefix: append([]int{}, opt.Prefix...), owned: !sharded}}
	first := true
	for len(stack) > 0 {
		it := stack[len(stack)-1]
		stack = stack[:len(stack)-1]
		if opt.MaxExecs > 0 && st.Executions >= opt.MaxExecs {
			st.Capped = fmt.Sprintf("max executions %d in %s", opt.MaxExecs, opt.Name)
			return
		}
		if !opt.Deadline.IsZero() && st.Executions%64 == 0 && time.Now().After(opt.Deadline) {
			st.Capped = "deadline in " + opt.Name
			return
		}
		e := RunOnce(opt, it.prefix, body, st.States)
		if e.diverged != "" {
			st.Internal = "replay divergence in " + opt.Name + ": " + e.diverged
			return
		}
		if verdict != nil {
			cx = e // allow Fail() from verdict
			verdict(e)
			cx = nil
		}
		if first {
			first = false
			// determinism self-check: the same prefix must give the same observations
			e2 := RunOnce(opt, it.prefix, body, nil)
			if verdict != nil {
				cx = e2
				verdict(e2)
				cx = nil
			}
			if obsHashOf(e2) != obsHashOf(e) || len(e2.Decisions) != len(e.Decisions) {
				st.Internal = fmt.Sprintf("nondeterministic execution in %s: obs %v vs %v", opt.Name, e.Obs, e2.Obs)
				return
			}
			if st.SampleObs == nil {
				st.SampleObs = e.Obs
				st.SampleChoice = takenOf(e)
			}
		}
		count := it.owned || opt.Shard == 0
		if count {
			st.Executions++
			st.Transitions += e.steps
		}
		if len(e.Decisions) > st.MaxDepth {
			st.MaxDepth = len(e.Decisions)
		}
		st.Outcomes[obsHashOf(e)] = struct{}{}
		if len(e.Fails) > 0 && count {
			// one violation per key per scenario; confirm by immediate replay with tracing
			for _, f := range e.Fails {
				if seenKeys[f.Key] {
					continue
				}
				seenKeys[f.Key] = true
				choices := takenOf(e)
				o2 := opt
				o2.Trace = true
				e2 := RunOnce(o2, choices, body, nil)
				if verdict != nil {
					cx = e2
					verdict(e2)
					cx = nil
				}
				ok := false
				for _, f2 := range e2.Fails {
					if f2.Key == f.Key {
						ok = true
					}
				}
				if !ok {
					st.Internal = fmt.Sprintf("violation %s in %s did not reproduce on replay", f.Key, opt.Name)
					return
				}
				st.Violations = append(st.Violations, Violation{Scenario: opt.Name, Key: f.Key, Detail: f.Detail, Choices: choices, Trace: e2.Trace, Obs: e2.Obs})
			}
		}
		if opt.Single {
			return
		}
		// branch
		costSoFar := 0
		for i, d := range e.Decisions {
			if i >= len(it.prefix) {
				for alt := d.N - 1; alt >= 1; alt-- {
					if costSoFar+int(d.Cost[alt]) > opt.Bound {
						continue
					}
					np := make([]int, i+1)
					for j := 0; j < i; j++ {
						np[j] = e.Decisions[j].Taken
					}
					np[i] = alt
					owned := it.owned
					if !owned && len(np) >= opt.SplitDepth {
						h := uint64(14695981039346656037)
						for _, c := range np {
							h = (h ^ uint64(c+1)) * 1099511628211
						}
						if int(h%uint64(opt.NShard)) != opt.Shard {
							continue
						}
						owned = true
					}
					stack = append(stack, item{prefix: np, owned: owned})
				}
			}
			costSoFar += int(d.Cost[d.Taken])
		}
	}
}

func takenOf(e *Exec) []int {
	r := make([]int, len(e.Decisions))
	for i, d := range e.Decisions {
		r[i] = d.Taken
	}
	// trailing zeros are implied
	n := len(r)
	for n > 0 && r[n-1] == 0 {
		n--
	}
	return r[:n]
}

// BlockedSummary renders the blocked threads in a stable order.
func (e *Exec) BlockedSummary() string {
	var s []string
	for _, b := range e.Blocked {
		s = append(s, fmt.Sprintf("%s@%s", b.Site, b.Op))
	}
	sort.Strings(s)
	return strings.Join(s, ",")
}

// Alive reports the threads (other than main) that have not finished yet.
func Alive() []BlockedInfo {
	e := cx
	if e == nil {
		return nil
	}
	var r []BlockedInfo
	for _, t := range e.threads {
		if t.id != 0 && t.state != tsDone && t != e.cur {
			r = append(r, BlockedInfo{Thread: t.id, Site: t.site, Op: t.opDesc()})
		}
	}
	return r
}

type funcOp struct {
	what string
	en   func() bool
}

func (o funcOp) enabled(*Exec, *thread) bool { return o.en() }
func (o funcOp) desc() string                { return o.what }

// Block parks the calling thread at a scheduling point that is enabled when en()
// holds. It returns false when the thread is being torn down (callers must then
// return promptly without side effects).
func Block(what string, en func() bool) bool {
	e := cx
	if e == nil {
		panic("vrt.Block outside execution")
	}
	if e.cur == nil || e.cur.killed {
		return false
	}
	e.park(funcOp{what, en})
	return true
}

// Tracef adds a line to the trace of the current execution (when tracing).
func Tracef(format string, a ...any) {
	if cx != nil {
		cx.tracef("T%d "+format, append([]any{cx.curID()}, a...)...)
	}
}

// Killed reports whether the calling thread is being torn down.
func Killed() bool {
	return cx != nil && cx.cur != nil && cx.cur.killed
}

// WithExec runs f with e installed as the current execution (for verdicts that
// call Fail after the execution ended).
func WithExec(e *Exec, f func()) {
	cx = e
	defer func() { cx = nil }()
	f()
}

// watchdog: a managed thread that blocks outside the virtual runtime (a real mutex,
// a real channel, real I/O) would hang the explorer silently; turn that into a loud
// machinery failure instead.
var progress uint64
var watchOnce bool

// StuckHook, when set, is told about a managed thread that has been running for a minute without reaching a
// scheduling point: site is the innermost function of the code under test on its stack.
var StuckHook func(site, stack string)

// spinningThread looks, in a dump of all goroutines, for a managed thread (started by spawn) that is running or
// runnable and not parked in the runtime, and whose innermost frame outside the runtime and the standard library
// belongs to the code under test and not to a harness file.
func spinningThread(dump string) (site, stack string) {
	for _, blk := range strings.Split(dump, "\n\n") {
		if !strings.Contains(blk, "vrt.(*Exec).spawn") || strings.Contains(blk, "vrt.(*Exec).park(") {
			continue
		}
		nl := strings.Index(blk, "\n")
		if nl < 0 {
			continue
		}
		head := blk[:nl]
		if !strings.Contains(head, "[running") && !strings.Contains(head, "[runnable") {
			continue
		}
		lines := strings.Split(blk[nl+1:], "\n")
		for i := 0; i+1 < len(lines); i += 2 {
			fn, file := lines[i], lines[i+1]
			if strings.HasPrefix(fn, "verif/") || !strings.Contains(fn, "/") && !strings.Contains(fn, "xmpp") {
				continue
			}
			if strings.Contains(fn, "gosrc.io/xmpp") {
				if strings.Contains(file, "zz_verif_") {
					return "", ""
				}
				if j := strings.Index(fn, "("); j > 0 && !strings.HasPrefix(fn[j:], "(*") {
					fn = fn[:j]
				}
				return strings.TrimSpace(fn), blk
			}
		}
	}
	return "", ""
}

func startWatchdog() {
	if watchOnce {
		return
	}
	watchOnce = true
	go func() {
		var last uint64
		idle := 0
		for {
			time.Sleep(5 * time.Second)
			if cx == nil {
				idle = 0
				continue
			}
			p := progress
			if p == last {
				idle++
			} else {
				idle = 0
			}
			last = p
			if idle >= 12 {
				buf := make([]byte, 1<<20)
				n := runtime.Stack(buf, true)
				if site, stack := spinningThread(string(buf[:n])); site != "" && StuckHook != nil {
					// a managed thread that is neither parked nor blocked: code under test that loops without ever
					// reaching a scheduling point (a busy loop). That is a finding about the code, not about the machinery.
					StuckHook(site, stack)
				}
				fmt.Fprintf(os.Stderr, "vrt: no scheduling progress for 60s: a thread is blocked outside the virtual runtime\n%s\n", buf[:n])
				os.Exit(3)
			}
		}
	}()
}

// Quiet switches preemption off (on=true) or back on: while quiet the running thread
// keeps running as long as it is enabled and no scheduling alternative is recorded.
// Harnesses use it for set-up phases whose interleavings are not under test.
func Quiet(on bool) {
	if cx != nil {
		cx.quiet = on
	}
}
