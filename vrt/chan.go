package vrt

import (
	"fmt"
	"reflect"
)

// Channels: the real channel value is only an identity; its state (buffer, closed,
// waiters) lives in the execution, so that sends, receives, selects and closes are
// scheduling points with Go's semantics.

type chanState struct {
	id     uintptr
	cap    int
	buf    []any
	closed bool
	name   string
}

func (e *Exec) chanOf(ch any) *chanState {
	v := reflect.ValueOf(ch)
	if !v.IsValid() || v.IsNil() {
		return nil
	}
	p := v.Pointer()
	cs := e.chans[p]
	if cs == nil {
		cs = &chanState{id: p, cap: v.Cap(), name: fmt.Sprintf("ch%d", len(e.chans))}
		e.chans[p] = cs
		e.keep = append(e.keep, ch) // pin: the address must not be reused during the execution
	}
	return cs
}

type chanDir int

const (
	dirSend chanDir = iota
	dirRecv
)

// selCase is one communication of a (possibly single-case) select.
type selCase struct {
	cs  *chanState // nil channel: never ready
	dir chanDir
	val any
}

type selOp struct {
	cases      []selCase
	hasDefault bool
}

func (o *selOp) desc() string {
	s := "select["
	if len(o.cases) == 1 && !o.hasDefault {
		s = "["
	}
	for i, c := range o.cases {
		if i > 0 {
			s += ","
		}
		n := "nil"
		if c.cs != nil {
			n = c.cs.name
		}
		if c.dir == dirSend {
			s += n + "<-"
		} else {
			s += "<-" + n
		}
	}
	if o.hasDefault {
		s += ",default"
	}
	return s + "]"
}

func (o *selOp) enabled(e *Exec, t *thread) bool {
	if o.hasDefault {
		return true
	}
	for i := range o.cases {
		if e.caseReady(t, &o.cases[i]) {
			return true
		}
	}
	return false
}

// partner finds the first parked thread (by id = FIFO of creation; good enough and
// deterministic) with a complementary case on cs.
func (e *Exec) partner(self *thread, cs *chanState, want chanDir) (*thread, int) {
	for _, t := range e.threads {
		if t == self || t.state != tsParked {
			continue
		}
		so, ok := t.op.(*selOp)
		if !ok {
			continue
		}
		for i, c := range so.cases {
			if c.cs == cs && c.dir == want {
				return t, i
			}
		}
	}
	return nil, -1
}

func (e *Exec) caseReady(self *thread, c *selCase) bool {
	if c.cs == nil {
		return false
	}
	if c.dir == dirSend {
		if c.cs.closed {
			return true // will panic, as in Go
		}
		if len(c.cs.buf) < c.cs.cap {
			return true
		}
		if len(c.cs.buf) > 0 {
			return false
		}
		p, _ := e.partner(self, c.cs, dirRecv)
		return p != nil
	}
	if len(c.cs.buf) > 0 || c.cs.closed {
		return true
	}
	p, _ := e.partner(self, c.cs, dirSend)
	return p != nil
}

// doSelect parks on the cases and, once scheduled, performs one ready case.
// It returns the index of the case taken (-1 = default), and for receives the value.
// freeSelects is the number of selects with several ready cases, per execution, whose alternatives are explored
// at no cost.
const freeSelects = 6

func (e *Exec) doSelect(cases []selCase, hasDefault bool) (int, any, bool) {
	t := e.cur
	o := &selOp{cases: cases, hasDefault: hasDefault}
	e.park(o)
	if t.killed {
		return -1, nil, false
	}
	if t.resCase != noRes {
		// completed by a partner while parked
		i, v, ok, pm := t.resCase, t.resVal, t.resOk, t.resPanic
		t.resCase, t.resVal, t.resOk, t.resPanic = noRes, nil, false, ""
		if pm != "" {
			panic(pm)
		}
		return i, v, ok
	}
	var ready []int
	for i := range cases {
		if e.caseReady(t, &cases[i]) {
			ready = append(ready, i)
		}
	}
	if len(ready) == 0 {
		if hasDefault {
			return -1, nil, false
		}
		panic("vrt: select scheduled with no ready case")
	}
	pick := ready[0]
	if len(ready) > 1 {
		// Go picks uniformly among the ready cases: none of them is "the default", so every one of them is
		// explored at no cost (a deviation budget of 0 still covers both outcomes)
		// ... for the first freeSelects such selects of an execution: beyond that the alternatives cost one deviation
		// each, or n selects with two ready cases would multiply the tree by 2^n (40 handlers waiting on "result or
		// context done" with both ready did exactly that).
		cost := make([]int8, len(ready))
		if e.freeSel >= freeSelects {
			for i := 1; i < len(ready); i++ {
				cost[i] = 1
			}
		}
		e.freeSel++
		pick = ready[e.decide("select", len(ready), cost, o.desc())]
	}
	c := cases[pick]
	cs := c.cs
	if c.dir == dirSend {
		if cs.closed {
			panic("send on closed channel")
		}
		if p, pi := e.partner(t, cs, dirRecv); p != nil && len(cs.buf) == 0 {
			p.resCase, p.resVal, p.resOk = pi, c.val, true
			p.state = tsReady
			p.sigCache = ""
			e.tracef("T%d send %s -> T%d", t.id, cs.name, p.id)
		} else {
			cs.buf = append(cs.buf, c.val)
			e.tracef("T%d send %s (buffered)", t.id, cs.name)
		}
		return pick, nil, true
	}
	// receive
	if len(cs.buf) > 0 {
		v := cs.buf[0]
		cs.buf = cs.buf[1:]
		if p, pi := e.partner(t, cs, dirSend); p != nil {
			cs.buf = append(cs.buf, p.op.(*selOp).cases[pi].val)
			p.resCase, p.resOk = pi, true
			p.state = tsReady
			p.sigCache = ""
		}
		return pick, v, true
	}
	if p, pi := e.partner(t, cs, dirSend); p != nil {
		v := p.op.(*selOp).cases[pi].val
		p.resCase, p.resOk = pi, true
		p.state = tsReady
		p.sigCache = ""
		e.tracef("T%d recv %s <- T%d", t.id, cs.name, p.id)
		return pick, v, true
	}
	if cs.closed {
		return pick, nil, false
	}
	panic("vrt: receive scheduled but nothing to receive")
}

const noRes = -1 << 30

func (e *Exec) doClose(cs *chanState) {
	if cs == nil {
		panic("close of nil channel")
	}
	e.park(yieldOp{"close " + cs.name})
	if e.cur.killed {
		return
	}
	if cs.closed {
		panic("close of closed channel")
	}
	cs.closed = true
	// parked senders panic when they resume; parked receivers are released by
	// enabledness (closed channel is ready), nothing to do here.
	for _, t := range e.threads {
		if t.state != tsParked {
			continue
		}
		so, ok := t.op.(*selOp)
		if !ok {
			continue
		}
		for i, c := range so.cases {
			if c.cs == cs && c.dir == dirSend {
				t.resCase, t.resPanic = i, "send on closed channel"
				t.state = tsReady
				t.sigCache = ""
				break
			}
		}
	}
}

// --- generic front-ends used by instrumented code ---------------------------

func Send[T any](ch chan<- T, v T) {
	e := cx
	if e == nil {
		ch <- v
		return
	}
	if e.cur == nil || e.cur.killed {
		return
	}
	e.doSelect([]selCase{{cs: e.chanOf(ch), dir: dirSend, val: v}}, false)
}

func Recv[T any](ch <-chan T) T {
	v, _ := Recv2(ch)
	return v
}

func Recv2[T any](ch <-chan T) (T, bool) {
	e := cx
	if e == nil {
		v, ok := <-ch
		return v, ok
	}
	var zero T
	if e.cur == nil || e.cur.killed {
		return zero, false
	}
	_, v, ok := e.doSelect([]selCase{{cs: e.chanOf(ch), dir: dirRecv}}, false)
	if !ok || v == nil {
		return zero, ok
	}
	return v.(T), ok
}

func Close[T any](ch chan<- T) {
	e := cx
	if e == nil {
		close(ch)
		return
	}
	if e.cur == nil || e.cur.killed {
		return
	}
	e.doClose(e.chanOf(ch))
}

// Case is one arm of a rewritten select statement.
type Case interface {
	selCase(e *Exec) selCase
	set(v any, ok bool)
	real() reflect.SelectCase
}

type RecvC[T any] struct {
	ch  <-chan T
	Val T
	Ok  bool
}

func RecvCase[T any](ch <-chan T) *RecvC[T] { return &RecvC[T]{ch: ch} }

func (c *RecvC[T]) selCase(e *Exec) selCase { return selCase{cs: e.chanOf(c.ch), dir: dirRecv} }
func (c *RecvC[T]) set(v any, ok bool) {
	c.Ok = ok
	if v != nil {
		c.Val = v.(T)
	}
}
func (c *RecvC[T]) real() reflect.SelectCase {
	return reflect.SelectCase{Dir: reflect.SelectRecv, Chan: reflect.ValueOf(c.ch)}
}

type SendC[T any] struct {
	ch chan<- T
	v  T
}

func SendCase[T any](ch chan<- T, v T) *SendC[T] { return &SendC[T]{ch: ch, v: v} }

func (c *SendC[T]) selCase(e *Exec) selCase {
	return selCase{cs: e.chanOf(c.ch), dir: dirSend, val: c.v}
}
func (c *SendC[T]) set(any, bool) {}
func (c *SendC[T]) real() reflect.SelectCase {
	return reflect.SelectCase{Dir: reflect.SelectSend, Chan: reflect.ValueOf(c.ch), Send: reflect.ValueOf(c.v)}
}

// Select performs a select over cases; it returns the index of the case taken, or
// -1 for default.
func Select(hasDefault bool, cases ...Case) int {
	e := cx
	if e == nil {
		rc := make([]reflect.SelectCase, 0, len(cases)+1)
		for _, c := range cases {
			rc = append(rc, c.real())
		}
		if hasDefault {
			rc = append(rc, reflect.SelectCase{Dir: reflect.SelectDefault})
		}
		i, v, ok := reflect.Select(rc)
		if i == len(cases) {
			return -1
		}
		if v.IsValid() {
			cases[i].set(v.Interface(), ok)
		} else {
			cases[i].set(nil, ok)
		}
		return i
	}
	if e.cur == nil || e.cur.killed {
		return -1
	}
	sc := make([]selCase, len(cases))
	for i, c := range cases {
		sc[i] = c.selCase(e)
	}
	i, v, ok := e.doSelect(sc, hasDefault)
	if i >= 0 {
		cases[i].set(v, ok)
	}
	return i
}

// S wraps a channel so that the value sent is converted by ordinary assignability
// (T is inferred from the channel alone).
type Snd[T any] struct{ ch chan<- T }

func S[T any](ch chan<- T) Snd[T] { return Snd[T]{ch} }

func (s Snd[T]) Send(v T)           { Send(s.ch, v) }
func (s Snd[T]) Case(v T) *SendC[T] { return SendCase(s.ch, v) }
