package vrt

import (
	"testing"
	"time"
)

func TestLostUpdate(t *testing.T) {
	for _, locked := range []bool{false, true} {
		var st Stats
		body := func() {
			var mu Mutex
			x := 0
			done := make(chan bool)
			inc := func() {
				if locked {
					mu.Lock()
				}
				Touch("x")
				v := x
				Touch("x")
				x = v + 1
				if locked {
					mu.Unlock()
				}
				Send(done, true)
			}
			Go("a", inc)
			Go("b", inc)
			Recv(done)
			Recv(done)
			Log("x=%d", x)
			if x != 2 {
				Fail("lost", "x=%d", x)
			}
		}
		Explore(Options{Name: "lu", Bound: 2, TouchOn: []string{"x"}}, body, nil, &st)
		t.Logf("locked=%v execs=%d trans=%d states=%d outcomes=%d viol=%d internal=%q", locked, st.Executions, st.Transitions, len(st.States), len(st.Outcomes), len(st.Violations), st.Internal)
		if st.Internal != "" {
			t.Fatal(st.Internal)
		}
		if locked && len(st.Violations) != 0 {
			t.Fatalf("false alarm: %+v", st.Violations)
		}
		if !locked && len(st.Violations) == 0 {
			t.Fatal("missed lost update")
		}
	}
}

func TestTimersSelect(t *testing.T) {
	var st Stats
	body := func() {
		tk := NewTicker(time.Second)
		quit := make(chan struct{})
		n := 0
		fin := make(chan int)
		Go("loop", func() {
			for {
				c0 := RecvCase(tk.C)
				c1 := RecvCase((<-chan struct{})(quit))
				switch Select(false, c0, c1) {
				case 0:
					n++
				case 1:
					tk.Stop()
					Send(fin, n)
					return
				}
			}
		})
		Sleep(3500 * time.Millisecond)
		Close(quit)
		Log("n=%d", Recv(fin))
	}
	Explore(Options{Name: "tick", Bound: 2}, body, func(e *Exec) {
		if e.Deadlock || e.Panic != nil {
			Fail("end", "deadlock=%v panic=%v", e.Deadlock, e.Panic)
		}
	}, &st)
	t.Logf("execs=%d outcomes=%d viol=%v internal=%q sample=%v", st.Executions, len(st.Outcomes), st.Violations, st.Internal, st.SampleObs)
	if st.Internal != "" || len(st.Violations) != 0 {
		t.Fatal("unexpected")
	}
}

func TestDeadlockDetected(t *testing.T) {
	var st Stats
	Explore(Options{Name: "dl", Bound: 1}, func() {
		ch := make(chan int)
		Recv(ch)
	}, func(e *Exec) {
		if e.Deadlock {
			Fail("deadlock", "%s", e.BlockedSummary())
		}
	}, &st)
	if len(st.Violations) != 1 {
		t.Fatalf("want 1 violation got %+v internal=%q", st.Violations, st.Internal)
	}
}

// run explores body exhaustively within bound and returns the set of observation logs.
func run(t *testing.T, bound int, free bool, body func()) map[string]bool {
	t.Helper()
	outs := map[string]bool{}
	var st Stats
	Explore(Options{Name: t.Name(), Bound: bound, FreeSwitch: free}, body, func(e *Exec) {
		s := ""
		for _, o := range e.Obs {
			s += o + ";"
		}
		if e.Deadlock {
			s += "DEADLOCK;"
		}
		if e.Panic != nil {
			s += "PANIC(" + e.Panic.Value + ");"
		}
		outs[s] = true
	}, &st)
	if st.Internal != "" {
		t.Fatal(st.Internal)
	}
	return outs
}

func TestUnbufferedRendezvousAndClose(t *testing.T) {
	outs := run(t, 2, true, func() {
		ch := make(chan int)
		Go("s", func() { Send(ch, 1); Send(ch, 2); Close(ch) })
		a := Recv(ch)
		b := Recv(ch)
		_, ok := Recv2(ch)
		Log("%d %d %v", a, b, ok)
	})
	if len(outs) != 1 || !outs["1 2 false;"] {
		t.Fatalf("outcomes %v", outs)
	}
}

func TestSendOnClosedPanicsAndCloseTwicePanics(t *testing.T) {
	outs := run(t, 1, true, func() {
		ch := make(chan int, 1)
		Close(ch)
		Send(ch, 1)
	})
	if len(outs) != 1 || !outs["PANIC(send on closed channel);"] {
		t.Fatalf("outcomes %v", outs)
	}
	outs = run(t, 1, true, func() {
		ch := make(chan int)
		Close(ch)
		Close(ch)
	})
	if !outs["PANIC(close of closed channel);"] {
		t.Fatalf("outcomes %v", outs)
	}
}

func TestBufferedChannelBlocksWhenFull(t *testing.T) {
	outs := run(t, 2, true, func() {
		ch := make(chan int, 1)
		Send(ch, 1)
		Go("r", func() { Log("got %d", Recv(ch)); Log("got %d", Recv(ch)) })
		Send(ch, 2) // must wait for the receiver to make room
		Log("sent")
		WaitIdle()
	})
	for o := range outs {
		if o != "got 1;sent;got 2;" && o != "got 1;got 2;sent;" {
			t.Fatalf("impossible outcome %q (all: %v)", o, outs)
		}
	}
	if len(outs) != 2 {
		t.Fatalf("want both orders, got %v", outs)
	}
}

func TestSelectTakesAnyReadyCaseAndDefault(t *testing.T) {
	outs := run(t, 2, true, func() {
		a, b := make(chan int, 1), make(chan int, 1)
		Send(a, 1)
		Send(b, 2)
		ca, cb := RecvCase((<-chan int)(a)), RecvCase((<-chan int)(b))
		switch Select(false, ca, cb) {
		case 0:
			Log("a%d", ca.Val)
		case 1:
			Log("b%d", cb.Val)
		}
		c := make(chan int)
		if Select(true, RecvCase((<-chan int)(c))) == -1 {
			Log("default")
		}
	})
	if len(outs) != 2 || !outs["a1;default;"] || !outs["b2;default;"] {
		t.Fatalf("outcomes %v", outs)
	}
}

func TestRWMutexWriterPreferenceAndNoPhantomWriter(t *testing.T) {
	// a reader may enter while a writer thread exists but has not called Lock yet
	outs := run(t, 3, true, func() {
		var m RWMutex
		m.RLock()
		Go("w", func() { m.Lock(); Log("w"); m.Unlock() })
		Go("r2", func() { m.RLock(); Log("r2"); m.RUnlock() })
		Yield("hold")
		Log("main-unlock")
		m.RUnlock()
		WaitIdle()
	})
	// r2 before the unlock is possible only when it got in before the writer announced itself
	if !outs["r2;main-unlock;w;"] || !outs["main-unlock;w;r2;"] {
		t.Fatalf("missing expected interleavings: %v", outs)
	}
	for o := range outs {
		if o == "w;main-unlock;r2;" || o == "w;r2;main-unlock;" {
			t.Fatalf("writer entered while a reader held the lock: %v", outs)
		}
	}
}

func TestWaitGroupAndTimersUnderVirtualClock(t *testing.T) {
	outs := run(t, 2, true, func() {
		var wg WaitGroup
		wg.Add(2)
		Go("a", func() { Sleep(3 * time.Second); Log("a@%s", VNow()); wg.Done() })
		Go("b", func() { Recv(After(time.Second)); Log("b@%s", VNow()); wg.Done() })
		wg.Wait()
		Log("done@%s", VNow())
	})
	if len(outs) != 1 || !outs["b@1s;a@3s;done@3s;"] {
		t.Fatalf("outcomes %v", outs)
	}
}

func TestTickerDropsTicksLikeGo(t *testing.T) {
	outs := run(t, 1, true, func() {
		tk := NewTicker(time.Second)
		Sleep(3500 * time.Millisecond) // three ticks fire, the channel holds one
		n := 0
		for {
			if Select(true, RecvCase(tk.C)) == -1 {
				break
			}
			n++
		}
		tk.Stop()
		Log("buffered=%d", n)
	})
	if len(outs) != 1 || !outs["buffered=1;"] {
		t.Fatalf("outcomes %v", outs)
	}
}

func TestContextCancelAndTimeout(t *testing.T) {
	outs := run(t, 2, true, func() {
		ctx, cancel := WithTimeout(Background(), 5*time.Second)
		defer cancel()
		c2, cancel2 := WithCancel(ctx)
		Go("c", func() { Sleep(time.Second); cancel2() })
		Recv(c2.Done())
		Log("c2@%s err=%v", VNow(), c2.Err())
		Recv(ctx.Done())
		Log("ctx@%s err=%v", VNow(), ctx.Err())
	})
	if len(outs) != 1 || !outs["c2@1s err=context canceled;ctx@5s err=context deadline exceeded;"] {
		t.Fatalf("outcomes %v", outs)
	}
}

func TestDelayBoundingCountsEveryDeviation(t *testing.T) {
	count := func(bound int, free bool) int {
		var st Stats
		Explore(Options{Name: "c", Bound: bound, FreeSwitch: free}, func() {
			done := make(chan bool)
			for i := 0; i < 3; i++ {
				Go("t", func() { Yield("x"); Yield("y"); Send(done, true) })
			}
			for i := 0; i < 3; i++ {
				Recv(done)
			}
		}, nil, &st)
		return st.Executions
	}
	d0, d1, p0 := count(0, false), count(1, false), count(0, true)
	if d0 != 1 {
		t.Fatalf("delay bound 0 must be the single default schedule, got %d", d0)
	}
	if !(d1 > d0 && p0 > d1) {
		t.Fatalf("expected 1 < delay-bound-1 (%d) < preemption-bound-0 with free switches (%d)", d1, p0)
	}
}
