package vrt

import (
	"testing"
	"time"
)

func TestLostUpdate(t *testing.T) {
	for _, locked := range []bool{false, true} {
		var st Stats
		body := func() {
			var mu Mutex
			x := 0
			done := make(chan bool)
			inc := func() {
				if locked {
					mu.Lock()
				}
				Touch("x")
				v := x
				Touch("x")
				x = v + 1
				if locked {
					mu.Unlock()
				}
				Send(done, true)
			}
			Go("a", inc)
			Go("b", inc)
			Recv(done)
			Recv(done)
			Log("x=%d", x)
			if x != 2 {
				Fail("lost", "x=%d", x)
			}
		}
		Explore(Options{Name: "lu", Bound: 2, TouchOn: []string{"x"}}, body, nil, &st)
		t.Logf("locked=%v execs=%d trans=%d states=%d outcomes=%d viol=%d internal=%q", locked, st.Executions, st.Transitions, len(st.States), len(st.Outcomes), len(st.Violations), st.Internal)
		if st.Internal != "" {
			t.Fatal(st.Internal)
		}
		if locked && len(st.Violations) != 0 {
			t.Fatalf("false alarm: %+v", st.Violations)
		}
		if !locked && len(st.Violations) == 0 {
			t.Fatal("missed lost update")
		}
	}
}

func TestTimersSelect(t *testing.T) {
	var st Stats
	body := func() {
		tk := NewTicker(time.Second)
		quit := make(chan struct{})
		n := 0
		fin := make(chan int)
		Go("loop", func() {
			for {
				c0 := RecvCase(tk.C)
				c1 := RecvCase((<-chan struct{})(quit))
				switch Select(false, c0, c1) {
				case 0:
					n++
				case 1:
					tk.Stop()
					Send(fin, n)
					return
				}
			}
		})
		Sleep(3500 * time.Millisecond)
		Close(quit)
		Log("n=%d", Recv(fin))
	}
	Explore(Options{Name: "tick", Bound: 2}, body, func(e *Exec) {
		if e.Deadlock || e.Panic != nil {
			Fail("end", "deadlock=%v panic=%v", e.Deadlock, e.Panic)
		}
	}, &st)
	t.Logf("execs=%d outcomes=%d viol=%v internal=%q sample=%v", st.Executions, len(st.Outcomes), st.Violations, st.Internal, st.SampleObs)
	if st.Internal != "" || len(st.Violations) != 0 {
		t.Fatal("unexpected")
	}
}

func TestDeadlockDetected(t *testing.T) {
	var st Stats
	Explore(Options{Name: "dl", Bound: 1}, func() {
		ch := make(chan int)
		Recv(ch)
	}, func(e *Exec) {
		if e.Deadlock {
			Fail("deadlock", "%s", e.BlockedSummary())
		}
	}, &st)
	if len(st.Violations) != 1 {
		t.Fatalf("want 1 violation got %+v internal=%q", st.Violations, st.Internal)
	}
}
