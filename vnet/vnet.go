// Package vnet is an in-memory network for code running under vrt: net.Conn pairs
// whose reads, writes and closes are scheduling points, a per-execution map from
// addresses to scripted servers, and monitors that see every byte.
package vnet

import (
	"errors"
	"fmt"
	"io"
	"net"
	"os"
	"time"

	"verif/vrt"
)

type pipe struct {
	buf     []byte
	wclosed bool // writer side closed: reader sees EOF after draining
	reset   bool // connection reset: reader sees an error after draining
}

// Record is one write seen by a monitor.
type Record struct {
	At     time.Duration
	ToSrv  bool // client -> server
	Data   []byte
	Failed bool
}

type Conn struct {
	Name   string
	in     *pipe
	out    *pipe
	peer   *Conn
	closed bool
	client bool
	// NoYieldWrite makes Write not a scheduling point (used once a conn is wrapped by
	// crypto/tls, whose internal real mutexes must not be held across a park).
	NoYieldWrite bool
	// WriteFault, when set, is consulted on every write; it returns (n, err) to inject
	// a fault or (-1, nil) to let the write through.
	WriteFault func(c *Conn, p []byte) (int, error)
	// EOFWithData makes Read return the last bytes together with io.EOF in one call, once the peer has
	// closed (what crypto/tls does when close_notify arrives in the segment of the last record; io.Reader
	// allows it for any reader).
	EOFWithData bool
	// read and write deadlines, on the virtual clock (zero = none)
	rdl, wdl time.Time
	Log      *[]Record
	Writes   int
}

type addr string

func (a addr) Network() string { return "vnet" }
func (a addr) String() string  { return string(a) }

// Pipe returns a connected pair (client side, server side).
func Pipe(name string, log *[]Record) (*Conn, *Conn) {
	a, b := &pipe{}, &pipe{}
	c := &Conn{Name: name + "/c", in: a, out: b, client: true, Log: log}
	s := &Conn{Name: name + "/s", in: b, out: a, Log: log}
	c.peer, s.peer = s, c
	return c, s
}

var ErrClosed = net.ErrClosed
var ErrReset = errors.New("read: connection reset by peer")
var ErrBrokenPipe = errors.New("write: broken pipe")

func (c *Conn) Read(p []byte) (int, error) {
	if len(p) == 0 {
		return 0, nil
	}
	if !vrt.Block("read "+c.Name, func() bool {
		return len(c.in.buf) > 0 || c.in.wclosed || c.in.reset || c.closed || expired(c.rdl)
	}) {
		return 0, ErrClosed
	}
	if c.closed {
		return 0, &net.OpError{Op: "read", Net: "vnet", Err: ErrClosed}
	}
	if len(c.in.buf) == 0 && !c.in.wclosed && !c.in.reset && expired(c.rdl) {
		vrt.Tracef("read %s: deadline exceeded", c.Name)
		return 0, &net.OpError{Op: "read", Net: "vnet", Err: os.ErrDeadlineExceeded}
	}
	if len(c.in.buf) > 0 {
		n := copy(p, c.in.buf)
		c.in.buf = c.in.buf[n:]
		vrt.Tracef("read %s %d bytes", c.Name, n)
		if c.EOFWithData && len(c.in.buf) == 0 && c.in.wclosed && !c.in.reset {
			return n, io.EOF
		}
		return n, nil
	}
	if c.in.reset {
		return 0, &net.OpError{Op: "read", Net: "vnet", Err: ErrReset}
	}
	return 0, io.EOF
}

func (c *Conn) Write(p []byte) (int, error) {
	if !c.NoYieldWrite {
		if !vrt.Block("write "+c.Name, func() bool { return true }) {
			return 0, ErrClosed
		}
	} else if vrt.Killed() {
		return 0, ErrClosed
	}
	c.Writes++
	if c.closed {
		return 0, &net.OpError{Op: "write", Net: "vnet", Err: ErrClosed}
	}
	if expired(c.wdl) {
		return 0, &net.OpError{Op: "write", Net: "vnet", Err: os.ErrDeadlineExceeded}
	}
	if c.WriteFault != nil {
		if n, err := c.WriteFault(c, p); n >= 0 || err != nil {
			if n > 0 {
				c.deliver(p[:n], false)
			} else if c.Log != nil {
				*c.Log = append(*c.Log, Record{At: vrt.VNow(), ToSrv: c.client, Data: append([]byte{}, p...), Failed: true})
			}
			if n < 0 {
				n = 0
			}
			vrt.Tracef("write %s FAULT n=%d err=%v %q", c.Name, n, err, clip(p))
			return n, err
		}
	}
	if c.out.reset {
		return 0, &net.OpError{Op: "write", Net: "vnet", Err: ErrBrokenPipe}
	}
	c.deliver(p, false)
	vrt.Tracef("write %s %q", c.Name, clip(p))
	return len(p), nil
}

func clip(p []byte) string {
	if len(p) > 200 {
		return string(p[:200]) + "..."
	}
	return string(p)
}

func (c *Conn) deliver(p []byte, failed bool) {
	if c.Log != nil {
		*c.Log = append(*c.Log, Record{At: vrt.VNow(), ToSrv: c.client, Data: append([]byte{}, p...), Failed: failed})
	}
	if c.peer.closed || c.out.wclosed {
		return // dropped on the floor, like bytes sent to a closed peer before the RST comes back
	}
	c.out.buf = append(c.out.buf, p...)
}

// Close closes this end: local reads fail, the peer sees EOF after draining.
func (c *Conn) Close() error {
	if !vrt.Block("close "+c.Name, func() bool { return true }) {
		return nil
	}
	if c.closed {
		return &net.OpError{Op: "close", Net: "vnet", Err: ErrClosed}
	}
	c.closed = true
	c.out.wclosed = true
	vrt.Tracef("close %s", c.Name)
	return nil
}

// Reset aborts the connection from this side: the peer's reads fail with a reset
// after draining and its writes fail.
func (c *Conn) Reset() {
	c.closed = true
	c.out.reset = true
	c.in.reset = true
}

// CloseNow is Close without a scheduling point (for scripted servers).
func (c *Conn) CloseNow() {
	c.closed = true
	c.out.wclosed = true
}

func (c *Conn) IsClosed() bool       { return c.closed }
func (c *Conn) PeerClosed() bool     { return c.peer.closed }
func (c *Conn) Buffered() int        { return len(c.in.buf) }
func (c *Conn) LocalAddr() net.Addr  { return addr(c.Name) }
func (c *Conn) RemoteAddr() net.Addr { return addr(c.peer.Name) }

// Deadlines run on the virtual clock. A read that is blocked when its deadline passes returns
// os.ErrDeadlineExceeded (a net.Error with Timeout() true), as a real connection does; writes never block
// here, so a write deadline only matters if it has already passed when Write is called.
func (c *Conn) SetDeadline(t time.Time) error {
	c.SetReadDeadline(t)
	return c.SetWriteDeadline(t)
}

func (c *Conn) SetReadDeadline(t time.Time) error {
	c.rdl = t
	if !t.IsZero() {
		if d := vrt.Until(t); d > 0 {
			// a timer that does nothing: it makes the virtual clock stop at the deadline, where the blocked
			// read's condition is evaluated again
			vrt.AfterFunc(d, func() {})
		}
	}
	return nil
}

func (c *Conn) SetWriteDeadline(t time.Time) error {
	c.wdl = t
	return nil
}

func expired(t time.Time) bool { return !t.IsZero() && !vrt.Now().Before(t) }

// ---------------------------------------------------------------------------

// World maps addresses to listeners for one execution.
type World struct {
	Listeners map[string]*Listener
	Dials     []string
	Log       []Record
}

// Listener decides what happens to the k-th dial of its address.
type Listener struct {
	// Accept is called for each dial (k counts from 0). It returns the server-side
	// handler to run in a new managed thread, or an error to refuse the dial.
	Accept func(k int, srv *Conn) (func(), error)
	N      int
	Conns  []*Conn // client sides, in dial order
	Logs   []*[]Record
}

const worldKey = "vnet.world"

func NewWorld() *World {
	w := &World{Listeners: map[string]*Listener{}}
	vrt.X().Data[worldKey] = w
	return w
}

func Current() *World {
	x := vrt.X()
	if x == nil {
		return nil
	}
	w, _ := x.Data[worldKey].(*World)
	return w
}

func (w *World) Listen(address string, l *Listener) *Listener {
	w.Listeners[address] = l
	return l
}

var ErrRefused = errors.New("connect: connection refused")

func DialTimeout(network, address string, timeout time.Duration) (net.Conn, error) {
	if !vrt.Active() {
		return net.DialTimeout(network, address, timeout)
	}
	w := Current()
	if w == nil {
		return nil, &net.OpError{Op: "dial", Net: network, Err: errors.New("vnet: no world in this execution")}
	}
	if !vrt.Block("dial "+address, func() bool { return true }) {
		return nil, ErrClosed
	}
	w.Dials = append(w.Dials, address)
	l := w.Listeners[address]
	if l == nil {
		vrt.Tracef("dial %s: no listener", address)
		return nil, &net.OpError{Op: "dial", Net: network, Err: ErrRefused}
	}
	k := l.N
	l.N++
	log := &[]Record{}
	c, s := Pipe(fmt.Sprintf("%s#%d", address, k), log)
	h, err := l.Accept(k, s)
	if err != nil {
		vrt.Tracef("dial %s #%d refused: %v", address, k, err)
		return nil, &net.OpError{Op: "dial", Net: network, Err: err}
	}
	l.Conns = append(l.Conns, c)
	l.Logs = append(l.Logs, log)
	vrt.Tracef("dial %s #%d accepted", address, k)
	if h != nil {
		vrt.Go(fmt.Sprintf("server:%s#%d", address, k), h)
	}
	return c, nil
}

func Dial(network, address string) (net.Conn, error) {
	return DialTimeout(network, address, 0)
}

// LookupSRV never resolves anything in the virtual network.
func LookupSRV(service, proto, name string) (string, []*net.SRV, error) {
	if !vrt.Active() {
		return net.LookupSRV(service, proto, name)
	}
	return "", nil, &net.DNSError{Err: "no such host", Name: name, IsNotFound: true}
}

// Peer returns the other end of the connection.
func (c *Conn) Peer() *Conn { return c.peer }
