//go:build verif

package stanza

import "encoding/xml"

// Extensions of the application, registered the way the library documents (TypeRegistry.MapExtension), whose local
// names are those of the standard children of the stanza they extend, in a namespace of their own: <body/>, <thread/>,
// <subject/>, <error/> in a message, <show/>, <status/>, <priority/>, <error/> in a presence. The registry walk of
// the C01 generator picks them up like the library's own, so they appear alone, filled, beside the standard children
// and in every ordered selection of extensions. (XHTML-IM, the library's own example, is such a case: <body/> in
// another namespace, under <html/>.)

type C01CollideBody struct {
	MsgExtension
	XMLName xml.Name `xml:"urn:verif:collide body"`
	Value   string   `xml:"value,attr,omitempty"`
	Text    string   `xml:",chardata"`
}
type C01CollideThread struct {
	MsgExtension
	XMLName xml.Name `xml:"urn:verif:collide thread"`
	Value   string   `xml:"value,attr,omitempty"`
}
type C01CollideSubject struct {
	MsgExtension
	XMLName xml.Name `xml:"urn:verif:collide subject"`
	Text    string   `xml:",chardata"`
}
type C01CollideMsgError struct {
	MsgExtension
	XMLName xml.Name `xml:"urn:verif:collide error"`
	Value   string   `xml:"value,attr,omitempty"`
}
type C01CollideShow struct {
	PresExtension
	XMLName xml.Name `xml:"urn:verif:collide show"`
	Text    string   `xml:",chardata"`
}
type C01CollideStatus struct {
	PresExtension
	XMLName xml.Name `xml:"urn:verif:collide status"`
	Value   string   `xml:"value,attr,omitempty"`
}
type C01CollidePriority struct {
	PresExtension
	XMLName xml.Name `xml:"urn:verif:collide priority"`
	Value   string   `xml:"value,attr,omitempty"`
}
type C01CollidePresError struct {
	PresExtension
	XMLName xml.Name `xml:"urn:verif:collide error"`
	Value   string   `xml:"value,attr,omitempty"`
}

func init() {
	const ns = "urn:verif:collide"
	TypeRegistry.MapExtension(PKTMessage, xml.Name{Space: ns, Local: "body"}, C01CollideBody{})
	TypeRegistry.MapExtension(PKTMessage, xml.Name{Space: ns, Local: "thread"}, C01CollideThread{})
	TypeRegistry.MapExtension(PKTMessage, xml.Name{Space: ns, Local: "subject"}, C01CollideSubject{})
	TypeRegistry.MapExtension(PKTMessage, xml.Name{Space: ns, Local: "error"}, C01CollideMsgError{})
	TypeRegistry.MapExtension(PKTPresence, xml.Name{Space: ns, Local: "show"}, C01CollideShow{})
	TypeRegistry.MapExtension(PKTPresence, xml.Name{Space: ns, Local: "status"}, C01CollideStatus{})
	TypeRegistry.MapExtension(PKTPresence, xml.Name{Space: ns, Local: "priority"}, C01CollidePriority{})
	TypeRegistry.MapExtension(PKTPresence, xml.Name{Space: ns, Local: "error"}, C01CollidePresError{})
}
