//go:build verif

package stanza

import (
	"bytes"
	"encoding/xml"
	"fmt"
	"io"
	"reflect"
	"sort"
	"strings"
	"time"
	"unsafe"
)

// C01 support: reflection-driven value generator and an independent XML walker.
//
// The generator builds values of the library's types in the form the library's own
// decoders produce (pointers in interface slots, XMLName of untagged elements set to
// the name/namespace the decoder would record) and remembers, for every leaf it
// fills, a marker: the text placed, where it is expected in the output (attribute or
// element, local name) and the narrow key naming the Go field.
//
// What the generator deliberately does NOT fill (exemptions, see also c01.go):
//   - unexported fields (NullableInt.isSet is set through NewNullableInt),
//   - fields tagged xml:"-" (only Node.Attrs, which Node's custom marshaler handles
//     and which the Node hook fills explicitly),
//   - anonymous interface fields (the embedded MsgExtension / PresExtension marker
//     interfaces of extension structs: they hold nothing and no decoder sets them),
//   - tagged XMLName fields (the struct tag decides the element name on output).

const (
	c01Attr     = iota // value expected as an attribute value
	c01Elem            // value expected as the character data of an element
	c01Name            // value expected as an element's local name
	c01Presence        // empty element whose presence is the information
)

type c01leaf struct {
	Path     string   // full path from the root, e.g. Message.Extensions[0](OOB).URL
	Key      string   // narrow key, e.g. OOB.URL or IQ.Attrs.Lang
	Chain    []string // keys of the enclosing composite fields, outermost first
	ChainP   []string // paths of the same
	Kind     int
	Text     string
	Unique   bool      // Text is a unique marker in this value
	Expect   string    // expected local name of the attribute / element ("" = unknown)
	Explicit bool      // Expect comes from an explicit name in the struct tag
	IsString bool      // string-typed: eligible for adversarial substitution
	Raw      bool      // innerxml field
	NoInject bool      // documented contract "raw XML supplied by the caller"
	Subst    bool      // carries a substituted (adversarial) string in this build
	Numeric  bool      // integer-typed: eligible for the boundary values of its type
	Steps    []c01step // how to reach the field in a parsed value
}

// one navigation step from the root value towards a leaf
type c01step struct {
	kind byte // 'f' field i, 'p' pointer, 's' slice index i, 'i' interface holding typ, 'a' attribute named name in a []xml.Attr
	i    int
	typ  reflect.Type
	name string
}

func c01plus(steps []c01step, st ...c01step) []c01step {
	return append(append([]c01step{}, steps...), st...)
}

type c01choice struct {
	Path string
	N    int
	Name string // name of the variant chosen
}

type c01cfg struct {
	sliceN  int                       // elements per slice (1 or 2)
	only    []string                  // nil = fill everything; else leaf paths / path prefixes to fill
	slot    map[string][]reflect.Type // forced content of interface slots, by path
	choices map[string]int            // variant chosen per interface slot path
	subst   map[string]string         // leaf path -> string placed instead of the marker
	numIdx  int                       // 0 = small distinct numbers; k > 0 = the k-th boundary value of each numeric leaf's type
}

// boundary values of the integer types (those that do not fit a leaf's type are left out for it)
var c01intBounds = []int64{0, 1, -1, 127, -128, 128, 255, 32767, -32768, 65535, 1<<31 - 1, -(1 << 31), 1 << 31, 1<<32 - 1, 1 << 32, 1<<63 - 1, -(1 << 63)}
var c01uintBounds = []uint64{0, 1, 127, 128, 255, 256, 65535, 65536, 1<<31 - 1, 1 << 31, 1<<32 - 1, 1 << 32, 1<<53 + 1, 1<<63 - 1, 1 << 63, 1<<64 - 1}

func c01intBound(v reflect.Value, idx int) (int64, bool) {
	k := 0
	for _, b := range c01intBounds {
		if !v.OverflowInt(b) {
			if k++; k == idx {
				return b, true
			}
		}
	}
	return 0, false
}

func c01uintBound(v reflect.Value, idx int) (uint64, bool) {
	k := 0
	for _, b := range c01uintBounds {
		if !v.OverflowUint(b) {
			if k++; k == idx {
				return b, true
			}
		}
	}
	return 0, false
}

type c01gen struct {
	cfg    c01cfg
	leaves []*c01leaf
	seen   []c01choice
	ns     string
	nInt   int
	nMark  int
	nTime  int
	notes  []string
}

var (
	c01tName     = reflect.TypeOf(xml.Name{})
	c01tNode     = reflect.TypeOf(Node{})
	c01tErr      = reflect.TypeOf(Err{})
	c01tNullable = reflect.TypeOf(NullableInt{})
	c01tTime     = reflect.TypeOf(time.Time{})
	c01tEmpty    = reflect.TypeOf(struct{}{})
)

// realistic values for the enumerated string types (non-unique, checked by name)
var c01enums = map[reflect.Type]string{
	reflect.TypeOf(StanzaType("")):   "set",
	reflect.TypeOf(PresenceShow("")): "away",
	reflect.TypeOf(ErrorType("")):    "cancel",
}

// implementers of the library's interface slots, in the form the decoders produce
func c01variants(t reflect.Type) []reflect.Type {
	p := func(v interface{}) reflect.Type { return reflect.TypeOf(v) }
	switch t {
	case reflect.TypeOf((*CommandElement)(nil)).Elem():
		return []reflect.Type{p(&Actions{}), p(&Note{}), p(&Form{}), p(&Node{})}
	case reflect.TypeOf((*OwnerUseCase)(nil)).Elem():
		return []reflect.Type{p(&AffiliationsOwner{}), p(&ConfigureOwner{}), p(&DefaultOwner{}), p(&DeleteOwner{}), p(&PurgeOwner{}), p(&SubscriptionsOwner{})}
	case reflect.TypeOf((*EventElement)(nil)).Elem():
		return []reflect.Type{p(&CollectionEvent{}), p(&ConfigurationEvent{}), p(&DeleteEvent{}), p(&ItemsEvent{}), p(&PurgeEvent{}), p(&SubscriptionEvent{})}
	case reflect.TypeOf((*AssocDisassoc)(nil)).Elem():
		return []reflect.Type{p(&AssociateEvent{}), p(&DisassociateEvent{})}
	case reflect.TypeOf((*Packet)(nil)).Elem():
		// decodeClient yields Message and Presence values and *IQ
		return []reflect.Type{p(Message{}), p(Presence{}), p(&IQ{})}
	case reflect.TypeOf((*StanzaErrorGroup)(nil)).Elem():
		return []reflect.Type{p(&BadFormat{}), p(&BadNamespacePrefix{}), p(&Conflict{}), p(&ConnectionTimeout{}), p(&HostGone{}),
			p(&HostUnknown{}), p(&ImproperAddressing{}), p(&InternalServerError{}), p(&InvalidForm{}), p(&InvalidId{}),
			p(&InvalidNamespace{}), p(&InvalidXML{}), p(&NotAuthorized{}), p(&NotWellFormed{}), p(&PolicyViolation{}),
			p(&RemoteConnectionFailed{}), p(&ResourceConstraint{}), p(&RestrictedXML{}), p(&SeeOtherHost{}), p(&SystemShutdown{}),
			p(&UndefinedCondition{}), p(&UnexpectedRequest{}), p(&UnsupportedEncoding{}), p(&UnsupportedStanzaType{}),
			p(&UnsupportedVersion{}), p(&XMLNotWellFormed{}), p(&Reset{})}
	}
	return nil
}

type c01tag struct {
	ns, local                                       string
	attr, omitempty, chardata, cdata, innerxml, any bool
	skip                                            bool
}

func c01parseTag(s string) c01tag {
	var t c01tag
	if s == "-" {
		t.skip = true
		return t
	}
	parts := strings.Split(s, ",")
	name := parts[0]
	if i := strings.LastIndex(name, " "); i >= 0 {
		t.ns, name = name[:i], name[i+1:]
	}
	if i := strings.LastIndex(name, ">"); i >= 0 {
		name = name[i+1:]
	}
	t.local = name
	for _, f := range parts[1:] {
		switch f {
		case "attr":
			t.attr = true
		case "omitempty":
			t.omitempty = true
		case "chardata":
			t.chardata = true
		case "cdata":
			t.cdata = true
		case "innerxml":
			t.innerxml = true
		case "any":
			t.any = true
		}
	}
	return t
}

// local part of a tag name such as xml:lang
func c01local(n string) string {
	if i := strings.LastIndex(n, ":"); i >= 0 {
		return n[i+1:]
	}
	return n
}

func c01tname(t reflect.Type) string {
	for t.Kind() == reflect.Ptr {
		t = t.Elem()
	}
	return t.Name()
}

func c01under(p, prefix string) bool {
	if !strings.HasPrefix(p, prefix) {
		return false
	}
	if len(p) == len(prefix) {
		return true
	}
	switch p[len(prefix)] {
	case '.', '[', '(':
		return true
	}
	return false
}

// leaf wanted?
func (g *c01gen) wantLeaf(path string) bool {
	if g.cfg.only == nil {
		return true
	}
	for _, o := range g.cfg.only {
		if c01under(path, o) {
			return true
		}
	}
	return false
}

// container wanted (something wanted lies below it, or it lies below a wanted prefix)?
func (g *c01gen) wantBox(path string) bool {
	if g.cfg.only == nil {
		return true
	}
	if _, ok := g.cfg.slot[path]; ok {
		return true
	}
	for _, o := range g.cfg.only {
		if c01under(o, path) || c01under(path, o) {
			return true
		}
	}
	for sp := range g.cfg.slot {
		if c01under(sp, path) {
			return true
		}
	}
	return false
}

func (g *c01gen) choose(path string, n int) int {
	g.seen = append(g.seen, c01choice{Path: path, N: n})
	if v, ok := g.cfg.choices[path]; ok && v < n {
		return v
	}
	return 0
}

func c01sanitize(s string) string {
	var sb strings.Builder
	for _, r := range s {
		switch {
		case r >= 'a' && r <= 'z', r >= 'A' && r <= 'Z', r >= '0' && r <= '9', r == '.':
			sb.WriteRune(r)
		}
	}
	return sb.String()
}

func (g *c01gen) marker(key string) string {
	g.nMark++
	return fmt.Sprintf("m%dx%s", g.nMark, c01sanitize(key))
}

func (g *c01gen) add(l *c01leaf) *c01leaf {
	if s, ok := g.cfg.subst[l.Path]; ok && l.IsString {
		l.Text = s
		l.Unique = false
		l.Subst = true
	}
	g.leaves = append(g.leaves, l)
	return l
}

type c01ctx struct {
	path   string
	key    string // key of the field holding the value
	chain  []string
	chainP []string
	tag    c01tag
	field  string // Go field name
	steps  []c01step
}

func (c c01ctx) down(path, key string) c01ctx {
	n := c
	n.chain = append(append([]string{}, c.chain...), c.key)
	n.chainP = append(append([]string{}, c.chainP...), c.path)
	n.path, n.key = path, key
	return n
}

func (g *c01gen) expect(cx c01ctx) (string, bool) {
	if cx.tag.local != "" {
		return c01local(cx.tag.local), true
	}
	if cx.tag.chardata || cx.tag.cdata || cx.tag.innerxml {
		return "", false
	}
	return cx.field, false
}

func (g *c01gen) leafKind(cx c01ctx) int {
	if cx.tag.attr {
		return c01Attr
	}
	return c01Elem
}

// fill sets v (addressable) and records leaves.
func (g *c01gen) fill(v reflect.Value, cx c01ctx) {
	t := v.Type()
	exp, explicit := g.expect(cx)
	switch t {
	case c01tName:
		// an xml.Name used as data (SASLFailure.Any): the element name is the information
		if !g.wantLeaf(cx.path) {
			return
		}
		m := g.marker(cx.key)
		v.Set(reflect.ValueOf(xml.Name{Space: g.ns, Local: m}))
		g.add(&c01leaf{Path: cx.path, Key: cx.key, Chain: cx.chain, ChainP: cx.chainP, Steps: cx.steps, Kind: c01Name, Text: m, Unique: true})
		return
	case c01tNode:
		if !g.wantBox(cx.path) {
			return
		}
		v.Set(reflect.ValueOf(*g.smallNode(cx)))
		return
	case c01tErr:
		g.fillErr(v, cx)
		return
	case c01tNullable:
		if !g.wantLeaf(cx.path) {
			return
		}
		g.nInt++
		n, uniq := 10+g.nInt, true
		if b, ok := c01intBound(reflect.ValueOf(int(0)), g.cfg.numIdx); ok {
			n, uniq = int(b), false
		}
		v.Set(reflect.ValueOf(NewNullableInt(n)))
		g.add(&c01leaf{Path: cx.path, Key: cx.key, Chain: cx.chain, ChainP: cx.chainP, Steps: cx.steps, Kind: g.leafKind(cx), Text: fmt.Sprint(n), Unique: uniq, Expect: exp, Explicit: explicit, Numeric: true})
		return
	case c01tTime:
		if !g.wantLeaf(cx.path) {
			return
		}
		g.nTime++
		tm := time.Date(2000+g.nTime, 2, 3, 4, 5, 6, 0, time.UTC)
		v.Set(reflect.ValueOf(tm))
		g.add(&c01leaf{Path: cx.path, Key: cx.key, Chain: cx.chain, ChainP: cx.chainP, Steps: cx.steps, Kind: g.leafKind(cx), Text: tm.Format("2006-01-02T15:04:05Z"), Unique: true, Expect: exp, Explicit: explicit})
		return
	}
	switch t.Kind() {
	case reflect.String:
		if !g.wantLeaf(cx.path) {
			return
		}
		l := &c01leaf{Path: cx.path, Key: cx.key, Chain: cx.chain, ChainP: cx.chainP, Steps: cx.steps, Kind: g.leafKind(cx), Expect: exp, Explicit: explicit, IsString: true}
		if ev, ok := c01enums[t]; ok {
			l.Text = ev
		} else {
			l.Text = g.marker(cx.key)
			l.Unique = true
		}
		if cx.tag.innerxml {
			l.Raw = true
			if cx.key == "HTMLBody.InnerXML" {
				l.NoInject = true
			}
		}
		g.add(l)
		v.SetString(l.Text)
	case reflect.Int, reflect.Int8, reflect.Int16, reflect.Int32, reflect.Int64:
		if !g.wantLeaf(cx.path) {
			return
		}
		g.nInt++
		n, uniq := int64(10+g.nInt), true
		if b, ok := c01intBound(v, g.cfg.numIdx); ok {
			n, uniq = b, false
		}
		v.SetInt(n)
		g.add(&c01leaf{Path: cx.path, Key: cx.key, Chain: cx.chain, ChainP: cx.chainP, Steps: cx.steps, Kind: g.leafKind(cx), Text: fmt.Sprint(n), Unique: uniq, Expect: exp, Explicit: explicit, Numeric: true})
	case reflect.Uint, reflect.Uint8, reflect.Uint16, reflect.Uint32, reflect.Uint64:
		if !g.wantLeaf(cx.path) {
			return
		}
		g.nInt++
		n, uniq := uint64(10+g.nInt), true
		if b, ok := c01uintBound(v, g.cfg.numIdx); ok {
			n, uniq = b, false
		}
		v.SetUint(n)
		g.add(&c01leaf{Path: cx.path, Key: cx.key, Chain: cx.chain, ChainP: cx.chainP, Steps: cx.steps, Kind: g.leafKind(cx), Text: fmt.Sprint(n), Unique: uniq, Expect: exp, Explicit: explicit, Numeric: true})
	case reflect.Bool:
		if !g.wantLeaf(cx.path) {
			return
		}
		v.SetBool(true)
		g.add(&c01leaf{Path: cx.path, Key: cx.key, Chain: cx.chain, ChainP: cx.chainP, Steps: cx.steps, Kind: g.leafKind(cx), Text: "true", Expect: exp, Explicit: explicit})
	case reflect.Ptr:
		if t.Elem() == c01tEmpty {
			if !g.wantLeaf(cx.path) {
				return
			}
			v.Set(reflect.New(t.Elem()))
			g.add(&c01leaf{Path: cx.path, Key: cx.key, Chain: cx.chain, ChainP: cx.chainP, Steps: cx.steps, Kind: c01Presence, Expect: exp, Explicit: explicit})
			return
		}
		if !g.wantBox(cx.path) {
			return
		}
		nv := reflect.New(t.Elem())
		pcx := cx
		pcx.steps = c01plus(cx.steps, c01step{kind: 'p'})
		g.fill(nv.Elem(), pcx)
		v.Set(nv)
	case reflect.Slice:
		if !g.wantBox(cx.path) {
			return
		}
		if t.Elem().Kind() == reflect.Interface {
			g.fillIfaceSlice(v, cx)
			return
		}
		if t.Elem().Kind() == reflect.Uint8 {
			return
		}
		n := g.cfg.sliceN
		if n < 1 {
			n = 1
		}
		if g.cfg.only != nil {
			n = 1
		}
		sl := reflect.MakeSlice(t, 0, n)
		for i := 0; i < n; i++ {
			ev := reflect.New(t.Elem()).Elem()
			ecx := cx
			ecx.path = fmt.Sprintf("%s[%d]", cx.path, i)
			if !g.wantBox(ecx.path) {
				continue
			}
			ecx.steps = c01plus(cx.steps, c01step{kind: 's', i: sl.Len()})
			g.fill(ev, ecx)
			sl = reflect.Append(sl, ev)
		}
		if sl.Len() > 0 {
			v.Set(sl)
		}
	case reflect.Interface:
		if !g.wantBox(cx.path) {
			return
		}
		var vt reflect.Type
		if forced, ok := g.cfg.slot[cx.path]; ok {
			if len(forced) == 0 {
				return
			}
			vt = forced[0]
		} else {
			vs := c01variants(t)
			if len(vs) == 0 {
				g.notes = append(g.notes, "unfilled-interface:"+t.String())
				return
			}
			vt = vs[g.choose(cx.path, len(vs))]
			g.seen[len(g.seen)-1].Name = c01tname(vt)
		}
		g.setIface(v, vt, cx, cx.path, cx.steps)
	case reflect.Struct:
		g.fillStruct(v, cx, c01tname(t))
	}
}

func (g *c01gen) setIface(slot reflect.Value, vt reflect.Type, cx c01ctx, path string, steps []c01step) {
	name := c01tname(vt)
	icx := cx.down(path+"("+name+")", cx.key+"("+name+")")
	// the slot itself is the composite: keep the slot key as the last chain element
	icx.chain = append(append([]string{}, cx.chain...), icx.key)
	icx.chainP = append(append([]string{}, cx.chainP...), icx.path)
	icx.steps = c01plus(steps, c01step{kind: 'i', typ: vt})
	if vt.Kind() == reflect.Ptr {
		nv := reflect.New(vt.Elem())
		g.fillInner(nv.Elem(), icx)
		slot.Set(nv)
	} else {
		nv := reflect.New(vt).Elem()
		g.fillInner(nv, icx)
		slot.Set(nv)
	}
}

// fillInner fills a concrete value placed in an interface slot (chain already extended).
func (g *c01gen) fillInner(v reflect.Value, icx c01ctx) {
	if v.Type() == c01tNode {
		v.Set(reflect.ValueOf(*g.smallNode(icx)))
		return
	}
	if v.Kind() == reflect.Struct {
		g.structFields(v, icx, c01tname(v.Type()), icx.chain, icx.chainP)
		return
	}
	g.fill(v, icx)
}

func (g *c01gen) fillIfaceSlice(v reflect.Value, cx c01ctx) {
	t := v.Type()
	var list []reflect.Type
	if forced, ok := g.cfg.slot[cx.path]; ok {
		list = forced
	} else {
		vs := c01variants(t.Elem())
		if len(vs) == 0 {
			g.notes = append(g.notes, "unfilled-interface:"+t.Elem().String())
			return
		}
		// options: each implementer alone, all in order, all reversed
		k := g.choose(cx.path, len(vs)+2)
		switch {
		case k < len(vs):
			list = []reflect.Type{vs[k]}
			g.seen[len(g.seen)-1].Name = c01tname(vs[k])
		case k == len(vs):
			list = vs
			g.seen[len(g.seen)-1].Name = "all"
		default:
			for i := len(vs) - 1; i >= 0; i-- {
				list = append(list, vs[i])
			}
			g.seen[len(g.seen)-1].Name = "all-reversed"
		}
	}
	sl := reflect.MakeSlice(t, 0, len(list))
	for i, vt := range list {
		ev := reflect.New(t.Elem()).Elem()
		p := fmt.Sprintf("%s[%d]", cx.path, i)
		if _, forced := g.cfg.slot[cx.path]; !forced && !g.wantBox(p+"("+c01tname(vt)+")") {
			continue
		}
		g.setIface(ev, vt, cx, p, c01plus(cx.steps, c01step{kind: 's', i: sl.Len()}))
		sl = reflect.Append(sl, ev)
	}
	if sl.Len() > 0 {
		v.Set(sl)
	}
}

var c01untaggedNames = map[string]string{"ControlField": "boolean", "History": "history"}

func (g *c01gen) fillStruct(v reflect.Value, cx c01ctx, owner string) {
	chain := append(append([]string{}, cx.chain...), cx.key)
	chainP := append(append([]string{}, cx.chainP...), cx.path)
	g.structFields(v, cx, owner, chain, chainP)
}

func (g *c01gen) structFields(v reflect.Value, cx c01ctx, owner string, chain, chainP []string) {
	t := v.Type()
	saved := g.ns
	defer func() { g.ns = saved }()
	if cx.tag.ns != "" {
		g.ns = cx.tag.ns
	}
	if f, ok := t.FieldByName("XMLName"); ok && f.Type == c01tName && len(f.Index) == 1 {
		tg := c01parseTag(f.Tag.Get("xml"))
		if tg.ns != "" {
			g.ns = tg.ns
		}
		if tg.local == "" {
			// untagged XMLName: the decoder records the element's name; give that form
			local := c01local(cx.tag.local)
			if local == "" {
				local = c01untaggedNames[t.Name()]
			}
			if local == "" {
				local = strings.ToLower(t.Name())
			}
			v.Field(f.Index[0]).Set(reflect.ValueOf(xml.Name{Space: g.ns, Local: local}))
		}
	}
	for i := 0; i < t.NumField(); i++ {
		f := t.Field(i)
		if f.PkgPath != "" && !f.Anonymous {
			continue // unexported
		}
		if f.Name == "XMLName" && f.Type == c01tName {
			continue
		}
		tg := c01parseTag(f.Tag.Get("xml"))
		if tg.skip {
			continue
		}
		fv := v.Field(i)
		if f.Anonymous {
			ft := f.Type
			if ft.Kind() == reflect.Interface {
				continue // marker interface, exempt
			}
			if ft.Kind() == reflect.Struct && f.PkgPath == "" {
				// flattened by encoding/xml: Owner.Embedded.Field
				ecx := c01ctx{path: cx.path + "." + f.Name, key: owner + "." + f.Name, chain: chain, chainP: chainP, steps: c01plus(cx.steps, c01step{kind: 'f', i: i})}
				g.embedded(fv, ecx, owner+"."+f.Name)
				continue
			}
			continue
		}
		if !fv.CanSet() {
			continue
		}
		fcx := c01ctx{path: cx.path + "." + f.Name, key: owner + "." + f.Name, chain: chain, chainP: chainP, tag: tg, field: f.Name, steps: c01plus(cx.steps, c01step{kind: 'f', i: i})}
		g.fill(fv, fcx)
	}
}

// embedded struct: its fields belong to the embedding element
func (g *c01gen) embedded(v reflect.Value, cx c01ctx, owner string) {
	t := v.Type()
	for i := 0; i < t.NumField(); i++ {
		f := t.Field(i)
		if f.PkgPath != "" || f.Anonymous {
			continue
		}
		tg := c01parseTag(f.Tag.Get("xml"))
		if tg.skip {
			continue
		}
		fcx := c01ctx{path: cx.path + "." + f.Name, key: owner + "." + f.Name, chain: cx.chain, chainP: cx.chainP, tag: tg, field: f.Name, steps: c01plus(cx.steps, c01step{kind: 'f', i: i})}
		g.fill(v.Field(i), fcx)
	}
}

func c01f(t reflect.Type, name string) c01step {
	f, _ := t.FieldByName(name)
	return c01step{kind: 'f', i: f.Index[0]}
}

// Err has a custom marshaler: code/type attributes, the reason as an element name in
// the stanza-error namespace, the text in a <text/> child. Its leaves are attributed
// individually (the Err field itself is not a composite for attribution).
func (g *c01gen) fillErr(v reflect.Value, cx c01ctx) {
	var e Err
	leaves := c01errLeaves(cx.path, cx.chain, cx.chainP, cx.steps, g.wantLeaf, func() int { g.nInt++; return 400 + g.nInt }, "cancel", g.marker("Err.Reason"), g.marker("Err.Text"))
	for _, l := range leaves {
		g.add(l)
		switch l.Key {
		case "Err.Code":
			fmt.Sscan(l.Text, &e.Code)
		case "Err.Type":
			e.Type = ErrorType(l.Text)
		case "Err.Reason":
			e.Reason = l.Text
		case "Err.Text":
			e.Text = l.Text
		}
	}
	v.Set(reflect.ValueOf(e))
}

func c01errLeaves(path string, chain, chainP []string, steps []c01step, want func(string) bool, code func() int, typ, reason, text string) []*c01leaf {
	var out []*c01leaf
	if p := path + ".Code"; want(p) {
		out = append(out, &c01leaf{Path: p, Key: "Err.Code", Chain: chain, ChainP: chainP, Steps: c01plus(steps, c01f(c01tErr, "Code")), Kind: c01Attr, Text: fmt.Sprint(code()), Unique: true, Expect: "code", Explicit: true})
	}
	if p := path + ".Type"; want(p) {
		out = append(out, &c01leaf{Path: p, Key: "Err.Type", Chain: chain, ChainP: chainP, Steps: c01plus(steps, c01f(c01tErr, "Type")), Kind: c01Attr, Text: typ, Expect: "type", Explicit: true, IsString: true})
	}
	if p := path + ".Reason"; want(p) {
		out = append(out, &c01leaf{Path: p, Key: "Err.Reason", Chain: chain, ChainP: chainP, Steps: c01plus(steps, c01f(c01tErr, "Reason")), Kind: c01Name, Text: reason, Unique: true, IsString: true})
	}
	if p := path + ".Text"; want(p) {
		out = append(out, &c01leaf{Path: p, Key: "Err.Text", Chain: chain, ChainP: chainP, Steps: c01plus(steps, c01f(c01tErr, "Text")), Kind: c01Elem, Text: text, Unique: true, Expect: "text", Explicit: true, IsString: true})
	}
	return out
}

// leaves of one generic node (not of its children)
func c01nodeLeaves(n *Node, path string, chain, chainP []string, steps []c01step) []*c01leaf {
	var out []*c01leaf
	out = append(out, &c01leaf{Path: path + ".XMLName", Key: "Node.XMLName", Chain: chain, ChainP: chainP, Steps: c01plus(steps, c01f(c01tNode, "XMLName")), Kind: c01Name, Text: n.XMLName.Local, Unique: true})
	for i, a := range n.Attrs {
		key := "Node.Attrs"
		switch {
		case a.Name.Space == c01xmlNS:
			key = "Node.Attrs(xml:lang)"
		case a.Name.Space != "":
			key = "Node.Attrs(namespaced)"
		}
		out = append(out, &c01leaf{Path: fmt.Sprintf("%s.Attrs[%d]", path, i), Key: key, Chain: chain, ChainP: chainP,
			Steps: c01plus(steps, c01f(c01tNode, "Attrs"), c01step{kind: 'a', name: a.Name.Local}), Kind: c01Attr, Text: a.Value, Unique: true, Expect: a.Name.Local, Explicit: true, IsString: true})
	}
	if n.Content != "" {
		out = append(out, &c01leaf{Path: path + ".Content", Key: "Node.Content", Chain: chain, ChainP: chainP, Steps: c01plus(steps, c01f(c01tNode, "Content")), Kind: c01Elem, Text: n.Content, Unique: true, IsString: true})
	}
	return out
}

const c01xmlNS = "http://www.w3.org/XML/1998/namespace"

// smallNode: a fixed generic tree for Node slots other than the exhaustive IQ.Any
// enumeration: one attribute, content, one child in a different namespace.
func (g *c01gen) smallNode(cx c01ctx) *Node {
	chain := append(append([]string{}, cx.chain...), cx.key)
	chainP := append(append([]string{}, cx.chainP...), cx.path)
	n := &Node{XMLName: xml.Name{Space: "urn:c01:any", Local: g.marker("Node.XMLName")}}
	if g.wantLeaf(cx.path + ".Attrs[0]") {
		n.Attrs = []xml.Attr{{Name: xml.Name{Local: "k"}, Value: g.marker("Node.Attrs")}}
	}
	if g.wantLeaf(cx.path + ".Content") {
		n.Content = g.marker("Node.Content")
	}
	for _, l := range c01nodeLeaves(n, cx.path, chain, chainP, cx.steps) {
		l = g.add(l)
		switch {
		case l.Key == "Node.Attrs":
			n.Attrs[0].Value = l.Text
		case l.Key == "Node.Content":
			n.Content = l.Text
		}
	}
	if p := cx.path + ".Nodes[0]"; g.wantBox(p) {
		cn := Node{XMLName: xml.Name{Space: "urn:c01:sub", Local: g.marker("Node.Nodes")}}
		if g.wantLeaf(p + ".Content") {
			cn.Content = g.marker("Node.Content")
		}
		cchain := append(append([]string{}, chain...), "Node.Nodes")
		cchainP := append(append([]string{}, chainP...), p)
		for _, l := range c01nodeLeaves(&cn, p, cchain, cchainP, c01plus(cx.steps, c01f(c01tNode, "Nodes"), c01step{kind: 's', i: 0})) {
			l = g.add(l)
			if l.Key == "Node.Content" {
				cn.Content = l.Text
			}
		}
		n.Nodes = []Node{cn}
	}
	return n
}

type c01built struct {
	v      interface{} // pointer to the root value
	leaves []*c01leaf
	seen   []c01choice
	notes  []string
}

// c01make builds one value of root type rt (a struct type) under cfg.
func c01make(rt reflect.Type, cfg c01cfg) *c01built {
	g := &c01gen{cfg: cfg}
	pv := reflect.New(rt)
	name := rt.Name()
	cx := c01ctx{path: name, key: name}
	g.structFields(pv.Elem(), cx, name, nil, nil)
	return &c01built{v: pv.Interface(), leaves: g.leaves, seen: g.seen, notes: g.notes}
}

// c01eachChoice enumerates every combination of interface-slot variants (odometer
// over the slots discovered while building); f must build with the given choices and
// return the slots it met.
func c01eachChoice(f func(ch map[string]int) []c01choice) {
	ch := map[string]int{}
	for {
		seen := f(ch)
		i := len(seen) - 1
		for i >= 0 && ch[seen[i].Path]+1 >= seen[i].N {
			i--
		}
		if i < 0 {
			return
		}
		n := map[string]int{}
		for j := 0; j < i; j++ {
			n[seen[j].Path] = ch[seen[j].Path]
		}
		n[seen[i].Path] = ch[seen[i].Path] + 1
		ch = n
	}
}

// ---------------------------------------------------------------------------
// registry, read at run time
//
// The registry's contents are private and its layout is the library's business (a map per namespace
// today, maybe one flat map tomorrow): it is read by a generic walk that does not name its fields. Every
// reflect.Type found below TypeRegistry is reported with the packet type and the strings met on the way
// down (map keys and fields of struct keys, in order): namespace, then local name. Each entry is then
// confirmed through the public lookup, so a misreading cannot go unnoticed.

type c01regEntry struct {
	pt        PacketType
	ns, local string
	typ       reflect.Type
}

var c01tReflectType = reflect.TypeOf((*reflect.Type)(nil)).Elem()
var c01tPacketType = reflect.TypeOf(PacketType(0))

var c01lookupMismatch = map[string]string{}

func c01walkRegistry() []c01regEntry {
	var out []c01regEntry
	var walk func(v reflect.Value, pts []PacketType, strs []string, depth int)
	atoms := func(k reflect.Value, pts []PacketType, strs []string) ([]PacketType, []string) {
		switch {
		case k.Type() == c01tPacketType:
			pts = append(append([]PacketType{}, pts...), PacketType(k.Uint()))
		case k.Kind() == reflect.String:
			strs = append(append([]string{}, strs...), k.String())
		case k.Kind() == reflect.Struct:
			for i := 0; i < k.NumField(); i++ {
				pts, strs = atomsRec(k.Field(i), pts, strs)
			}
		}
		return pts, strs
	}
	walk = func(v reflect.Value, pts []PacketType, strs []string, depth int) {
		if depth > 8 || !v.IsValid() {
			return
		}
		if v.Type().Implements(c01tReflectType) || v.Type() == c01tReflectType {
			if v.Kind() == reflect.Interface && v.IsNil() {
				return
			}
			if t, ok := v.Interface().(reflect.Type); ok && t != nil && len(pts) == 1 && len(strs) >= 2 {
				out = append(out, c01regEntry{pts[0], strs[0], strs[1], t})
			}
			return
		}
		switch v.Kind() {
		case reflect.Ptr, reflect.Interface:
			if !v.IsNil() {
				walk(v.Elem(), pts, strs, depth+1)
			}
		case reflect.Struct:
			for i := 0; i < v.NumField(); i++ {
				f := v.Field(i)
				if f.CanAddr() {
					f = reflect.NewAt(f.Type(), unsafe.Pointer(f.UnsafeAddr())).Elem()
				}
				switch f.Kind() {
				case reflect.Map, reflect.Ptr, reflect.Interface, reflect.Struct, reflect.Slice:
					walk(f, pts, strs, depth+1)
				}
			}
		case reflect.Map:
			it := v.MapRange()
			for it.Next() {
				p2, s2 := atoms(it.Key(), pts, strs)
				walk(it.Value(), p2, s2, depth+1)
			}
		case reflect.Slice:
			for i := 0; i < v.Len(); i++ {
				walk(v.Index(i), pts, strs, depth+1)
			}
		}
	}
	root := reflect.ValueOf(TypeRegistry)
	walk(root, nil, nil, 0)
	for _, e := range out {
		if got := TypeRegistry.GetExtensionType(e.pt, xml.Name{Space: e.ns, Local: e.local}); got != e.typ {
			// what is registered and what the look-up answers differ: reported as a violation by the registry/lookup
			// scenario (a registered extension that the look-up does not give to the decoders cannot be preserved);
			// the walk's own reading is what the generator goes by
			c01lookupMismatch[fmt.Sprintf("%v|%s|%s", e.pt, e.ns, e.local)] = fmt.Sprintf("the registry holds (%v, %q, %q) -> %v, the public look-up gives %v", e.pt, e.ns, e.local, e.typ, got)
		}
	}
	if len(out) == 0 {
		panic("harness: the registry walk found no registered extension")
	}
	return out
}

func atomsRec(k reflect.Value, pts []PacketType, strs []string) ([]PacketType, []string) {
	switch {
	case k.Type() == c01tPacketType:
		pts = append(append([]PacketType{}, pts...), PacketType(k.Uint()))
	case k.Kind() == reflect.String:
		strs = append(append([]string{}, strs...), k.String())
	case k.Kind() == reflect.Struct:
		for i := 0; i < k.NumField(); i++ {
			pts, strs = atomsRec(k.Field(i), pts, strs)
		}
	}
	return pts, strs
}

type c01reg struct {
	ns, local string
	typ       reflect.Type // struct type
}

func c01registered(pt PacketType) []c01reg {
	var out []c01reg
	for _, e := range c01walkRegistry() {
		if e.pt != pt {
			continue
		}
		t := e.typ
		for t != nil && t.Kind() == reflect.Ptr {
			t = t.Elem()
		}
		if t == nil || t.Kind() != reflect.Struct {
			continue
		}
		out = append(out, c01reg{e.ns, e.local, t})
	}
	sort.Slice(out, func(i, j int) bool {
		if out[i].typ.Name() != out[j].typ.Name() {
			return out[i].typ.Name() < out[j].typ.Name()
		}
		if out[i].ns != out[j].ns {
			return out[i].ns < out[j].ns
		}
		return out[i].local < out[j].local
	})
	// one entry per Go type
	var ded []c01reg
	for i, r := range out {
		if i > 0 && out[i-1].typ == r.typ {
			continue
		}
		ded = append(ded, r)
	}
	return ded
}

// ---------------------------------------------------------------------------
// independent walk of serialized output

type c01occ struct {
	attr bool
	name string
	text string
}

type c01doc struct {
	err   error
	skel  string
	canon string
	occs  []c01occ
	names map[string]int
}

func c01isXmlns(a xml.Attr) bool {
	return a.Name.Space == "xmlns" || (a.Name.Space == "" && a.Name.Local == "xmlns")
}

func c01walk(b []byte) *c01doc {
	doc := &c01doc{names: map[string]int{}}
	d := xml.NewDecoder(bytes.NewReader(b))
	d.Strict = true
	var sk, cn strings.Builder
	type open struct {
		name string
		text strings.Builder
	}
	var stack []*open
	roots := 0
	for {
		tok, err := d.Token()
		if err == io.EOF {
			break
		}
		if err != nil {
			doc.err = err
			break
		}
		switch t := tok.(type) {
		case xml.StartElement:
			if len(stack) == 0 {
				roots++
			}
			doc.names[t.Name.Local]++
			fmt.Fprintf(&sk, "<{%s}%s", t.Name.Space, t.Name.Local)
			fmt.Fprintf(&cn, "<{%s}%s", t.Name.Space, t.Name.Local)
			var cattrs []string
			for _, a := range t.Attr {
				fmt.Fprintf(&sk, " @{%s}%s", a.Name.Space, a.Name.Local)
				if c01isXmlns(a) {
					continue
				}
				doc.occs = append(doc.occs, c01occ{true, a.Name.Local, a.Value})
				cattrs = append(cattrs, fmt.Sprintf(" {%s}%s=%q", a.Name.Space, a.Name.Local, a.Value))
			}
			sort.Strings(cattrs)
			cn.WriteString(strings.Join(cattrs, ""))
			sk.WriteString(">")
			cn.WriteString(">")
			stack = append(stack, &open{name: t.Name.Local})
		case xml.EndElement:
			if len(stack) == 0 {
				doc.err = fmt.Errorf("unbalanced end element %s", t.Name.Local)
				break
			}
			top := stack[len(stack)-1]
			stack = stack[:len(stack)-1]
			doc.occs = append(doc.occs, c01occ{false, top.name, top.text.String()})
			fmt.Fprintf(&cn, "%q", top.text.String())
			sk.WriteString("</>")
			cn.WriteString("</>")
		case xml.CharData:
			if len(stack) == 0 {
				if strings.TrimSpace(string(t)) != "" {
					sk.WriteString("TOPTEXT")
				}
				continue
			}
			stack[len(stack)-1].text.Write(t)
		case xml.Comment:
			sk.WriteString("<!--comment-->")
		case xml.ProcInst:
			sk.WriteString("<?pi?>")
		case xml.Directive:
			sk.WriteString("<!directive>")
		}
		if doc.err != nil {
			break
		}
	}
	if doc.err == nil && len(stack) != 0 {
		doc.err = fmt.Errorf("unclosed element %s", stack[len(stack)-1].name)
	}
	if doc.err == nil && roots != 1 {
		doc.err = fmt.Errorf("%d top-level elements", roots)
	}
	doc.skel = sk.String()
	doc.canon = cn.String()
	return doc
}

// count of occurrences of text as attribute value or element character data
func (d *c01doc) find(text string) []c01occ {
	var r []c01occ
	for _, o := range d.occs {
		if o.text == text {
			r = append(r, o)
		}
	}
	return r
}

func (d *c01doc) index(text string) int {
	for i, o := range d.occs {
		if o.text == text {
			return i
		}
	}
	return -1
}

// ---------------------------------------------------------------------------
// reading a leaf back from a parsed value

// c01access follows steps from root (any pointer depth) and returns the value found or
// the reason why the place does not exist in the parsed value.
func c01access(root reflect.Value, steps []c01step) (reflect.Value, string) {
	v := root
	for v.IsValid() && (v.Kind() == reflect.Ptr || v.Kind() == reflect.Interface) {
		if v.IsNil() {
			return v, "nil root"
		}
		v = v.Elem()
	}
	for _, st := range steps {
		switch st.kind {
		case 'f':
			if v.Kind() != reflect.Struct || st.i >= v.NumField() {
				return v, "not a struct where a field was expected"
			}
			v = v.Field(st.i)
		case 'p':
			if v.Kind() != reflect.Ptr {
				return v, "not a pointer"
			}
			if v.IsNil() {
				return v, "nil pointer"
			}
			v = v.Elem()
		case 's':
			if v.Kind() != reflect.Slice {
				return v, "not a slice"
			}
			if st.i >= v.Len() {
				return v, fmt.Sprintf("slice has %d element(s), index %d wanted", v.Len(), st.i)
			}
			v = v.Index(st.i)
		case 'i':
			if v.Kind() != reflect.Interface {
				return v, "not an interface"
			}
			if v.IsNil() {
				return v, "nil interface"
			}
			v = v.Elem()
			if v.Type() != st.typ {
				return v, fmt.Sprintf("slot holds a %s, not a %s", v.Type(), st.typ)
			}
			if v.Kind() == reflect.Ptr {
				if v.IsNil() {
					return v, "nil pointer in interface"
				}
				v = v.Elem()
			}
		case 'a':
			found := false
			if v.Kind() == reflect.Slice {
				for i := 0; i < v.Len(); i++ {
					if a, ok := v.Index(i).Interface().(xml.Attr); ok && a.Name.Local == st.name {
						v = reflect.ValueOf(a.Value)
						found = true
						break
					}
				}
			}
			if !found {
				return v, "no attribute named " + st.name
			}
		}
	}
	return v, ""
}

// c01render gives the text a leaf value stands for ("" + false if it holds nothing)
func c01render(v reflect.Value, l *c01leaf) (string, bool) {
	if l.Kind == c01Presence {
		return "", v.Kind() == reflect.Ptr && !v.IsNil()
	}
	switch v.Type() {
	case c01tName:
		return v.Interface().(xml.Name).Local, true
	case c01tNullable:
		n, set := v.Interface().(NullableInt).Get()
		return fmt.Sprint(n), set
	case c01tTime:
		return v.Interface().(time.Time).Format("2006-01-02T15:04:05Z"), true
	}
	switch v.Kind() {
	case reflect.String:
		return v.String(), true
	case reflect.Int, reflect.Int8, reflect.Int16, reflect.Int32, reflect.Int64:
		return fmt.Sprint(v.Int()), true
	case reflect.Uint, reflect.Uint8, reflect.Uint16, reflect.Uint32, reflect.Uint64:
		return fmt.Sprint(v.Uint()), true
	case reflect.Bool:
		return fmt.Sprint(v.Bool()), true
	}
	return fmt.Sprintf("<%s>", v.Type()), false
}
