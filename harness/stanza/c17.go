//go:build verif

package stanza

import (
	"fmt"
	"reflect"
	"strings"
	"testing"

	"verif/hx"
)

// C17: the unacknowledged-stanza queue is a FIFO with increasing sequence numbers.
// Explicit-state search: every transition is a call on the real UnAckQueue, compared
// with a reference slice.

type c17op struct {
	kind string // push, pushdup, pop, popn, peek, peekn, empty
	k    int    // for popn/peekn: symbolic argument index
	lit  int    // for popn/peekn in burst histories: the argument itself, when > 0
}

// argument domain for n, resolved against the current length
var c17args = []string{"-1", "0", "1", "2", "len-1", "len", "len+1", "len+5"}

func c17resolve(sym string, n int) int {
	switch sym {
	case "len-1":
		return n - 1
	case "len":
		return n
	case "len+1":
		return n + 1
	case "len+5":
		return n + 5
	}
	var v int
	fmt.Sscanf(sym, "%d", &v)
	return v
}

func c17alphabet() []c17op {
	ops := []c17op{{kind: "push"}, {kind: "pushdup"}, {kind: "pushreuse"}, {kind: "pushpeeked"}, {kind: "pushlast"}, {kind: "pop"}, {kind: "peek"}, {kind: "empty"}}
	for i := range c17args {
		ops = append(ops, c17op{kind: "popn", k: i}, c17op{kind: "peekn", k: i})
	}
	return ops
}

func (o c17op) String() string {
	if (o.kind == "popn" || o.kind == "peekn") && o.lit > 0 {
		return fmt.Sprintf("%s(%d)", o.kind, o.lit)
	}
	if o.kind == "popn" || o.kind == "peekn" {
		return o.kind + "(" + c17args[o.k] + ")"
	}
	return o.kind
}

type c17ref struct {
	items   []string
	pushes  int
	lastStz string
	shared  *UnAckedStz // one element object that the caller fills again for every "pushreuse"
	maxId   int         // greatest sequence number seen on any entry so far (entries that left the queue included)
	// results of earlier pop-n / peek-n calls that the caller still holds, with what they held when returned:
	// they belong to the caller and must read the same whatever the queue is asked later
	kept []c17kept
}

type c17kept struct {
	op   string
	res  []Queueable
	want []string
}

func c17payloads(q []Queueable) ([]string, bool) {
	var r []string
	for _, e := range q {
		s, ok := e.(*UnAckedStz)
		if !ok || s == nil {
			return nil, false
		}
		r = append(r, s.Stz)
	}
	return r, true
}

func c17snapshot(q *UnAckQueue) string {
	var sb strings.Builder
	for _, e := range q.Uslice {
		if e == nil {
			sb.WriteString("nil;")
			continue
		}
		fmt.Fprintf(&sb, "%d=%s;", e.Id, e.Stz)
	}
	return sb.String()
}

// c17apply performs op on both the real queue and the reference and compares.
// It returns a failure key ("" if fine) and detail.
func c17apply(q *UnAckQueue, ref *c17ref, o c17op) (string, string) {
	before := c17snapshot(q)
	n := len(ref.items)
	switch o.kind {
	case "push", "pushdup", "pushreuse":
		stz := ref.lastStz
		if o.kind != "pushdup" || stz == "" {
			stz = fmt.Sprintf("<s n='%d'/>", ref.pushes)
		}
		ref.pushes++
		ref.lastStz = stz
		el := &UnAckedStz{Id: 777, Stz: stz}
		if o.kind == "pushreuse" {
			// the caller re-uses one element object (a loop variable, say): the queue must hold
			// what was pushed, not what the caller's object says later
			if ref.shared == nil {
				ref.shared = &UnAckedStz{}
			}
			ref.shared.Id, ref.shared.Stz = 777, stz
			el = ref.shared
		}
		if err := q.Push(el); err != nil {
			return "push-error", err.Error()
		}
		ref.items = append(ref.items, stz)
	case "pushpeeked", "pushlast":
		// the caller hands back an element that it got from the queue (as is done to send a stanza again):
		// it is one more insertion, with the payload of that element
		var el Queueable
		if o.kind == "pushpeeked" {
			el = q.Peek()
		} else if all := q.PeekN(n); len(all) > 0 {
			el = all[len(all)-1]
		}
		if n == 0 || el == nil {
			if n != 0 {
				return "peek-wrong-element", "nothing returned from a queue that holds entries"
			}
			break
		}
		stz := el.(*UnAckedStz).Stz
		ref.pushes++
		ref.lastStz = stz
		if err := q.Push(el); err != nil {
			return "push-error", err.Error()
		}
		ref.items = append(ref.items, stz)
	case "pop":
		got := q.Pop()
		if n == 0 {
			if got != nil {
				return "pop-empty-not-nil", fmt.Sprintf("Pop on empty queue returned %v", got)
			}
		} else {
			s, ok := got.(*UnAckedStz)
			if !ok || s == nil || s.Stz != ref.items[0] {
				return "pop-wrong-element", fmt.Sprintf("Pop returned %v, reference %q", got, ref.items[0])
			}
			ref.items = ref.items[1:]
		}
	case "peek":
		got := q.Peek()
		if n == 0 {
			if got != nil {
				return "peek-empty-not-nil", fmt.Sprintf("Peek on empty queue returned %v", got)
			}
		} else {
			s, ok := got.(*UnAckedStz)
			if !ok || s == nil || s.Stz != ref.items[0] {
				return "peek-wrong-element", fmt.Sprintf("Peek returned %v, reference %q", got, ref.items[0])
			}
		}
		if c17snapshot(q) != before {
			return "peek-modified-queue", fmt.Sprintf("queue %s -> %s", before, c17snapshot(q))
		}
	case "empty":
		if q.Empty() != (n == 0) {
			return "empty-wrong", fmt.Sprintf("Empty()=%v with %d reference items", q.Empty(), n)
		}
		if c17snapshot(q) != before {
			return "empty-modified-queue", ""
		}
	case "popn", "peekn":
		k := c17resolve(c17args[o.k], n)
		if o.lit > 0 {
			k = o.lit
		}
		var got []Queueable
		if o.kind == "popn" {
			got = q.PopN(k)
		} else {
			got = q.PeekN(k)
		}
		want := 0
		if k > 0 {
			want = k
			if want > n {
				want = n
			}
		}
		gp, ok := c17payloads(got)
		if !ok {
			return o.kind + "-bad-element", fmt.Sprintf("%s(%d) returned a nil or foreign element", o.kind, k)
		}
		class := "in-range"
		switch {
		case k <= 0:
			class = "non-positive"
		case k > n:
			class = "beyond-length"
		case k == n:
			class = "exact-length"
		}
		if len(got) > 0 {
			ref.kept = append(ref.kept, c17kept{op: fmt.Sprintf("%s(%d)", o.kind, k), res: got, want: append([]string{}, gp...)})
			if len(ref.kept) > 3 {
				ref.kept = ref.kept[len(ref.kept)-3:]
			}
		}
		if strings.Join(gp, "|") != strings.Join(ref.items[:want], "|") {
			return o.kind + "-wrong-result|n=" + class, fmt.Sprintf("%s(%d) on %d items returned %q, reference %q", o.kind, k, n, gp, ref.items[:want])
		}
		if o.kind == "popn" {
			ref.items = ref.items[want:]
		} else if c17snapshot(q) != before {
			return "peekn-modified-queue", fmt.Sprintf("queue %s -> %s", before, c17snapshot(q))
		}
	}
	// what earlier calls returned still reads as it did
	for _, kp := range ref.kept {
		now, ok := c17payloads(kp.res)
		if !ok || strings.Join(now, "|") != strings.Join(kp.want, "|") {
			return "earlier-result-changed", fmt.Sprintf("the slice returned by an earlier %s read %q when it was returned and reads %q after %s", kp.op, kp.want, now, o)
		}
	}
	// contents agree with the reference, ids strictly increasing
	if len(q.Uslice) != len(ref.items) {
		return "contents-length", fmt.Sprintf("after %s queue holds %d entries, reference %d", o, len(q.Uslice), len(ref.items))
	}
	last := 0
	for i, e := range q.Uslice {
		if e == nil {
			return "contents-nil", fmt.Sprintf("entry %d is nil", i)
		}
		if e.Stz != ref.items[i] {
			return "contents-order", fmt.Sprintf("after %s entry %d is %q, reference %q", o, i, e.Stz, ref.items[i])
		}
		if i > 0 && e.Id <= last {
			return "ids-not-increasing", fmt.Sprintf("after %s ids %s", o, c17snapshot(q))
		}
		last = e.Id
	}
	// numbers increase in insertion order over the whole history: a new entry is numbered above every entry
	// inserted before it, whether that one is still queued or not
	// (for a queue built as a literal the queue cannot know what was numbered before it existed: there only the
	// order among queued entries, checked above, is asserted)
	if c17start == 0 && strings.HasPrefix(o.kind, "push") && len(q.Uslice) > 0 && len(q.Uslice) == n+1 {
		if id := q.Uslice[len(q.Uslice)-1].Id; id <= ref.maxId {
			return "id-not-above-earlier-entries", fmt.Sprintf("after %s the new entry is numbered %d, but an earlier entry was numbered %d (queue %s)", o, id, ref.maxId, c17snapshot(q))
		}
	}
	for _, e := range q.Uslice {
		if e.Id > ref.maxId {
			ref.maxId = e.Id
		}
	}
	// second read path: PeekN(len+3) must list the same payloads
	all, _ := c17payloads(q.PeekN(len(ref.items) + 3))
	if strings.Join(all, "|") != strings.Join(ref.items, "|") {
		return "peekn-all-mismatch", fmt.Sprintf("PeekN(len+3)=%q reference %q", all, ref.items)
	}
	return "", ""
}

func c17canon(q *UnAckQueue, ref *c17ref) string {
	// ids, plus which neighbours carry equal payloads (payload text itself is opaque to the queue)
	var sb strings.Builder
	for i, e := range q.Uslice {
		fmt.Fprintf(&sb, "%d", e.Id)
		if i > 0 && e.Stz == q.Uslice[i-1].Stz {
			sb.WriteString("=")
		}
		sb.WriteString(",")
	}
	if len(ref.items) > 0 && ref.lastStz == ref.items[len(ref.items)-1] {
		sb.WriteString("L")
	}
	fmt.Fprintf(&sb, "|max=%d", ref.maxId)
	// any further scalar bookkeeping of the queue (e.g. a persistent sequence counter) is part of the state
	rv := reflect.ValueOf(q).Elem()
	for i := 0; i < rv.NumField(); i++ {
		f := rv.Field(i)
		switch f.Kind() {
		case reflect.Int, reflect.Int64, reflect.Int32, reflect.Uint, reflect.Uint64:
			fmt.Fprintf(&sb, "|%s=%v", rv.Type().Field(i).Name, f)
		case reflect.Bool:
			fmt.Fprintf(&sb, "|%s=%v", rv.Type().Field(i).Name, f.Bool())
		}
	}
	return sb.String()
}

// c17start, when > 0, is the sequence number of one entry that the queue holds at the start (a queue built as a
// literal from its exported fields, as an application restoring saved state would): histories are also explored
// from there, across the 2^31 and 2^32 boundaries.
var c17start int

func c17replay(path []c17op) (*UnAckQueue, *c17ref, string, string) {
	q := NewUnAckQueue()
	ref := &c17ref{}
	if c17start > 0 {
		q = &UnAckQueue{Uslice: []*UnAckedStz{{Id: c17start, Stz: "<s n='start'/>"}}}
		ref.items = []string{"<s n='start'/>"}
		ref.maxId = c17start
	}
	for _, o := range path {
		if k, d := c17apply(q, ref, o); k != "" {
			return q, ref, k, d
		}
	}
	return q, ref, "", ""
}

func c17path(p []c17op) string {
	var s []string
	for _, o := range p {
		s = append(s, o.String())
	}
	return strings.Join(s, " ")
}

// c17burstScenarios: long histories. The queue grows to N entries and is taken down again, one entry at a time
// or by one pop-n of every size, and is used again afterwards: whatever the implementation does with its storage when
// it has grown or shrunk (reallocation, compaction, release) happens somewhere along these, for every N up to the
// bound and some larger ones around powers of two. Each operation is compared with the reference as in the search.
func c17burstScenarios() []hx.Scenario {
	var ns []int
	dense, big := 130, []int{255, 256, 257, 300, 511, 512, 513, 1000, 1025}
	if hx.Thorough() {
		dense, big = 300, []int{511, 512, 513, 1000, 1023, 1024, 1025, 2047, 2048, 2049, 4097}
	}
	for n := 1; n <= dense; n++ {
		ns = append(ns, n)
	}
	ns = append(ns, big...)
	after := []c17op{{kind: "push"}, {kind: "peek"}, {kind: "push"}, {kind: "pop"}, {kind: "peekn", k: 5}, {kind: "pop"}, {kind: "pop"}, {kind: "empty"}}
	run := func(c *hx.Ctx, what string, n int, hist []c17op) bool {
		q, ref := NewUnAckQueue(), &c17ref{}
		for i, o := range hist {
			c.Step(1)
			if k, d := c17apply(q, ref, o); k != "" {
				h := fmt.Sprintf("%s: %d pushes, then %s", what, n, c17path(hist[n:i+1]))
				c.Fail("C17|"+k+"|burst", h, "%s (history: %s)", d, h)
				return false
			}
		}
		c.Eval(fmt.Sprintf("burst %s n=%d => %s", what, n, c17snapshot(q)))
		return true
	}
	pushes := func(n int) []c17op {
		h := make([]c17op, 0, n+16)
		for i := 0; i < n; i++ {
			h = append(h, c17op{kind: "push"})
		}
		return h
	}
	var scs []hx.Scenario
	const shards = 8
	for sh := 0; sh < shards; sh++ {
		sh := sh
		scs = append(scs, hx.Scenario{Name: fmt.Sprintf("burst/shard=%d", sh), Run: func(c *hx.Ctx) {
			for i, n := range ns {
				if i%shards != sh || c.Expired() {
					continue
				}
				// one by one, down to nothing, then used again
				h := pushes(n)
				for j := 0; j < n; j++ {
					h = append(h, c17op{kind: "pop"})
				}
				if !run(c, "drained one by one", n, append(h, after...)) {
					return
				}
				// one pop-n of every size (quick tier: the sizes around the quarters for the larger N), then used again
				for k := 1; k <= n; k++ {
					if n > dense || !hx.Thorough() && n > 40 {
						near := false
						for _, q := range []int{1, 2, n / 8, n / 4, n / 2, 3 * n / 4, 7 * n / 8, n - 2, n - 1, n} {
							if k >= q-1 && k <= q+1 {
								near = true
							}
						}
						if !near {
							continue
						}
					}
					h := append(pushes(n), c17op{kind: "popn", lit: k})
					if !run(c, "pop-n", n, append(h, after...)) {
						return
					}
				}
				// saw-tooth: down to one entry, up again, down by pop-n
				h = pushes(n)
				for j := 0; j < n-1; j++ {
					h = append(h, c17op{kind: "pop"})
				}
				h = append(h, pushes(n/2+1)...)
				h = append(h, c17op{kind: "popn", lit: n/2 + 1})
				if !run(c, "saw-tooth", n, append(h, after...)) {
					return
				}
			}
			c.Sample(map[string]any{"shard": sh, "sizes": len(ns)})
		}})
	}
	return scs
}

func TestVerifC17(t *testing.T) {
	ops := c17alphabet()
	depthBFS, depthAll := 10, 4
	if hx.Thorough() {
		depthBFS, depthAll = 16, 5
	}
	var scs []hx.Scenario
	// Part A: every sequence up to depthAll on one live object (no state merging),
	// sharded by first operation.
	for fi := range ops {
		first := ops[fi]
		scs = append(scs, hx.Scenario{Name: "all-seq/first=" + first.String(), Run: func(c *hx.Ctx) {
			var rec func(path []c17op)
			rec = func(path []c17op) {
				q, ref, k, d := c17replay(path)
				c.Step(len(path))
				c.Eval(c17path(path) + "=>" + c17snapshot(q) + k)
				c.State(c17canon(q, ref))
				if k != "" {
					c.Fail("C17|"+k, c17path(path), "%s (history: %s)", d, c17path(path))
					return
				}
				if len(path) == depthAll {
					if len(path) == depthAll && c.Sample != nil {
						c.Sample(map[string]string{"history": c17path(path), "queue": c17snapshot(q)})
					}
					return
				}
				for _, o := range ops {
					rec(append(append([]c17op{}, path...), o))
				}
			}
			rec([]c17op{first})
		}})
	}
	// Part B: breadth-first explicit-state search with a visited set, deeper.
	scs = append(scs, hx.Scenario{Name: "bfs", Run: func(c *hx.Ctx) {
		type node struct{ path []c17op }
		frontier := []node{{nil}}
		q0, r0, _, _ := c17replay(nil)
		c.State(c17canon(q0, r0))
		for depth := 0; depth < depthBFS && len(frontier) > 0; depth++ {
			var next []node
			for _, nd := range frontier {
				for _, o := range ops {
					p := append(append([]c17op{}, nd.path...), o)
					q, ref, k, d := c17replay(p)
					c.Step(len(p))
					c.Eval("bfs:" + c17canon(q, ref) + "|" + o.String() + k)
					if k != "" {
						c.Fail("C17|"+k, c17path(p), "%s (history: %s)", d, c17path(p))
						continue
					}
					if c.State(c17canon(q, ref)) {
						next = append(next, node{p})
						c.Sample(map[string]string{"history": c17path(p), "queue": c17snapshot(q)})
					}
				}
			}
			frontier = next
		}
	}})
	for _, start := range []int{1<<31 - 3, 1<<32 - 3} {
		start := start
		for fi := range ops {
			first := ops[fi]
			scs = append(scs, hx.Scenario{Name: fmt.Sprintf("from-id=%d/first=%s", start, first.String()), Run: func(c *hx.Ctx) {
				c17start = start
				defer func() { c17start = 0 }()
				var rec func(path []c17op)
				rec = func(path []c17op) {
					q, ref, k, d := c17replay(path)
					c.Step(len(path))
					c.Eval(fmt.Sprintf("from %d: %s=>%s%s", start, c17path(path), c17snapshot(q), k))
					c.State(fmt.Sprintf("%d/", start) + c17canon(q, ref))
					if k != "" {
						c.Fail("C17|"+k+"|from-large-id", c17path(path), "%s (queue starting with one entry numbered %d, history: %s)", d, start, c17path(path))
						return
					}
					if len(path) == depthAll-1 {
						return
					}
					for _, o := range ops {
						rec(append(append([]c17op{}, path...), o))
					}
				}
				rec([]c17op{first})
			}})
		}
	}
	scs = append(scs, c17burstScenarios()...)
	if rc := hx.Main("C17", scs); rc == 2 {
		t.Fatal("internal error")
	}
}
