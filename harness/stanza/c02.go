//go:build verif

package stanza

import (
	"encoding/json"
	"encoding/xml"
	"fmt"
	"io"
	"os"
	"reflect"
	"strings"
	"testing"

	"verif/hx"
)

// C02: stream parsing: one packet per top-level element, right kind, total on any bytes.

type c02elem struct {
	name string
	xml  string
	kind string // expected Go type of the packet ("" = an error is expected)
	id   string
	typ  string
	from string
	// family classifies the element for violation keys
	family string
}

func c02nest(depth int, inner string) string {
	open, clos := "", ""
	for i := 0; i < depth; i++ {
		open += fmt.Sprintf("<n%d xmlns='urn:unknown:deep'>", i)
		clos = fmt.Sprintf("</n%d>", i) + clos
	}
	return open + inner + clos
}

func c02alphabet(ns string) []c02elem {
	var a []c02elem
	add := func(name, family, x, kind, id, typ, from string) {
		a = append(a, c02elem{name: name, xml: x, kind: kind, id: id, typ: typ, from: from, family: family})
	}
	for _, st := range []string{"message", "presence"} {
		kind := "stanza.Message"
		std := "<body>hello &amp; &lt;bye&gt;</body><subject>s</subject><thread>t</thread>"
		known := "<request xmlns='urn:xmpp:receipts'/>"
		if st == "presence" {
			kind = "stanza.Presence"
			std = "<show>away</show><status>gone</status><priority>5</priority>"
			known = "<x xmlns='http://jabber.org/protocol/muc'><password>pw</password></x>"
		}
		w := func(attrs, inner string) string { return "<" + st + attrs + ">" + inner + "</" + st + ">" }
		add(st+"/empty", "plain", "<"+st+" id='e1' from='a@b/c' type='x1'/>", kind, "e1", "x1", "a@b/c")
		add(st+"/standard", "plain", w(" id='s1' type='chat' from='a@b' to='c@d' xml:lang='en'", std), kind, "s1", "chat", "a@b")
		add(st+"/known-ext", "plain", w(" id='k1'", known), kind, "k1", "", "")
		add(st+"/unknown-ext", "unknown-child", w(" id='u1'", "<x xmlns='urn:unknown'><y a='1'>text</y><z/></x>"), kind, "u1", "", "")
		add(st+"/unknown-ext-same-name-same-ns", "descendant=same-name-same-ns", w(" id='f1' from='a@b'", "<forwarded xmlns='urn:unknown:fwd'><"+st+" xmlns='"+ns+"' id='inner' from='x@y'><body>inner</body></"+st+"></forwarded>"+std), kind, "f1", "", "a@b")
		add(st+"/unknown-ext-same-name-other-ns", "descendant=same-name-other-ns", w(" id='f2'", "<forwarded xmlns='urn:unknown:fwd'><"+st+" xmlns='urn:other' id='inner'/></forwarded>"), kind, "f2", "", "")
		add(st+"/unknown-ext-same-name-inherited-ns", "descendant=same-name-same-ns", w(" id='f3'", "<wrap><"+st+" id='inner'><body>i</body></"+st+"></wrap>"), kind, "f3", "", "")
		add(st+"/unknown-child-with-std-names", "unknown-child", w(" id='l1'", "<x xmlns='urn:unknown'><body>leak</body><error type='cancel'/><show>dnd</show></x>"), kind, "l1", "", "")
		add(st+"/deep-8", "unknown-child", w(" id='d8'", c02nest(8, "<leaf/>")), kind, "d8", "", "")
		add(st+"/deep-64", "unknown-child", w(" id='d64'", c02nest(64, "text")), kind, "d64", "", "")
		add(st+"/error-with-foreign", "error-child", w(" id='er1' type='error'", "<error type='cancel' code='404'><item-not-found xmlns='urn:ietf:params:xml:ns:xmpp-stanzas'/><foreign xmlns='urn:unknown'><deep><deeper/></deep></foreign><text xmlns='urn:ietf:params:xml:ns:xmpp-stanzas'>nope</text></error>"), kind, "er1", "error", "")
		add(st+"/error-with-nested-error", "error-child", w(" id='er2' type='error'", "<error type='cancel'><wrap xmlns='urn:unknown'><error xmlns='"+ns+"' type='x'/></wrap></error>"), kind, "er2", "error", "")
	}
	iq := func(attrs, inner string) string { return "<iq" + attrs + ">" + inner + "</iq>" }
	add("iq/get-disco", "plain", iq(" id='i1' type='get' from='a@b'", "<query xmlns='http://jabber.org/protocol/disco#info' node='n'/>"), "*stanza.IQ", "i1", "get", "a@b")
	add("iq/result-empty", "plain", "<iq id='i2' type='result'/>", "*stanza.IQ", "i2", "result", "")
	add("iq/unknown-payload", "unknown-child", iq(" id='i3' type='set'", "<x xmlns='urn:unknown'><y>1</y></x>"), "*stanza.IQ", "i3", "set", "")
	add("iq/error", "error-child", iq(" id='i4' type='error'", "<query xmlns='jabber:iq:roster'/><error type='cancel'><feature-not-implemented xmlns='urn:ietf:params:xml:ns:xmpp-stanzas'/></error>"), "*stanza.IQ", "i4", "error", "")
	add("iq/nested-iq-in-unknown", "descendant=same-name-same-ns", iq(" id='i5' type='set'", "<x xmlns='urn:unknown'><iq xmlns='"+ns+"' id='inner' type='get'><q/></iq></x>"), "*stanza.IQ", "i5", "set", "")
	add("iq/nested-iq-inherited-ns", "descendant=same-name-same-ns", iq(" id='i6' type='result'", "<wrap><iq id='inner'/></wrap>"), "*stanza.IQ", "i6", "result", "")
	add("iq/deep-64", "unknown-child", iq(" id='i7' type='result'", c02nest(64, "<leaf a='b'/>")), "*stanza.IQ", "i7", "result", "")
	add("iq/delegation-forwarded", "plain", iq(" id='i8' type='set'", "<delegation xmlns='urn:xmpp:delegation:1'><forwarded xmlns='urn:xmpp:forward:0'><iq xmlns='jabber:client' id='fw' type='get'><query xmlns='jabber:iq:version'/></iq></forwarded></delegation>"), "*stanza.IQ", "i8", "set", "")
	add("features/plain", "plain", "<stream:features><bind xmlns='urn:ietf:params:xml:ns:xmpp-bind'/><sm xmlns='urn:xmpp:sm:3'/></stream:features>", "stanza.StreamFeatures", "", "", "")
	add("features/unknown-children", "unknown-child", "<stream:features><x xmlns='urn:unknown'><y/></x><mechanisms xmlns='urn:ietf:params:xml:ns:xmpp-sasl'><mechanism>PLAIN</mechanism></mechanisms></stream:features>", "stanza.StreamFeatures", "", "", "")
	add("features/nested-features", "descendant=same-name-same-ns", "<stream:features><x xmlns='urn:unknown'><stream:features/></x></stream:features>", "stanza.StreamFeatures", "", "", "")
	add("stream-error", "plain", "<stream:error><host-unknown xmlns='urn:ietf:params:xml:ns:xmpp-streams'/><text xmlns='urn:ietf:params:xml:ns:xmpp-streams'>t</text></stream:error>", "stanza.StreamError", "", "", "")
	add("sasl/success", "plain", "<success xmlns='urn:ietf:params:xml:ns:xmpp-sasl'/>", "stanza.SASLSuccess", "", "", "")
	add("sasl/failure", "plain", "<failure xmlns='urn:ietf:params:xml:ns:xmpp-sasl'><not-authorized/><text>x</text></failure>", "stanza.SASLFailure", "", "", "")
	add("sm/enabled", "plain", "<enabled xmlns='urn:xmpp:sm:3' id='sm1' resume='true'/>", "stanza.SMEnabled", "", "", "")
	add("sm/resumed", "plain", "<resumed xmlns='urn:xmpp:sm:3' previd='sm1' h='3'/>", "stanza.SMResumed", "", "", "")
	add("sm/r", "plain", "<r xmlns='urn:xmpp:sm:3'/>", "stanza.SMRequest", "", "", "")
	add("sm/a", "plain", "<a xmlns='urn:xmpp:sm:3' h='7'/>", "stanza.SMAnswer", "", "", "")
	add("sm/failed", "plain", "<failed xmlns='urn:xmpp:sm:3'><unexpected-request xmlns='urn:ietf:params:xml:ns:xmpp-stanzas'/></failed>", "stanza.SMFailed", "", "", "")
	add("sm/a-with-children", "unknown-child", "<a xmlns='urn:xmpp:sm:3' h='2'><x xmlns='urn:unknown'><a xmlns='urn:xmpp:sm:3'/></x></a>", "stanza.SMAnswer", "", "", "")
	if ns == NSComponent {
		add("handshake", "plain", "<handshake>abcdef</handshake>", "stanza.Handshake", "", "", "")
		add("handshake/empty", "plain", "<handshake/>", "stanza.Handshake", "", "", "")
	}
	add("unknown-namespace", "plain", "<x xmlns='urn:totally:unknown'><message xmlns='"+ns+"' id='hidden'/></x>", "", "", "", "")
	add("known-ns-unknown-name", "plain", "<blob id='b1'><body>x</body></blob>", "", "", "", "")
	// an XHTML-IM body (decoded by a dedicated type), and foreign content whose element names are those of HTML
	// void elements, with content of their own: whatever a decoder does while reading the first must not change
	// how the rest of the stream is read
	add("message/xhtml-im", "plain", "<message id='h1' type='chat'><body>hi</body><html xmlns='http://jabber.org/protocol/xhtml-im'><body xmlns='http://www.w3.org/1999/xhtml' xml:lang='en'><p style='font-weight:bold'>hi<br/>there</p><img src='http://x/y.png' alt='y'/></body></html></message>", "stanza.Message", "h1", "chat", "")
	add("iq/unknown-payload-html-void-names", "unknown-child", iq(" id='v1' type='set'", "<x xmlns='urn:unknown'><link rel='alternate'>http://x/</link><param><value>1</value></param><input>text</input><meta><br>deep</br></meta><img>i</img><hr>h</hr></x>"), "*stanza.IQ", "v1", "set", "")
	add("message/unknown-ext-html-void-names", "unknown-child", "<message id='v2'><entry xmlns='http://www.w3.org/2005/Atom'><link rel='alternate'>http://x/</link><col>c</col><base>b</base><area>a</area></entry><body>after</body></message>", "stanza.Message", "v2", "", "")
	for _, st := range []string{"message", "presence", "iq"} {
		add("no-namespace/"+st, "plain", "<"+st+" xmlns='' id='nn1' from='a@b'><body>x</body></"+st+">", "", "", "", "")
	}
	add("other-namespace/message", "plain", "<message xmlns='jabber:server' id='os1'><body>x</body></message>", "", "", "", "")
	add("sm-unknown-name", "plain", "<blob xmlns='urn:xmpp:sm:3'/>", "", "", "", "")
	add("stream-unknown-name", "plain", "<stream:blob/>", "", "", "", "")
	add("sasl-unknown-name", "plain", "<challenge xmlns='urn:ietf:params:xml:ns:xmpp-sasl'>AAAA</challenge>", "", "", "", "")
	return a
}

// c02contentVariants: "whatever the element contains" for the elements that are not stanzas too. Every element of the
// alphabet that is one of those, with - inside it - nothing but white space, an empty foreign child, foreign children
// nested two and three levels deep, a stanza two levels down, and an element of its own name and namespace two levels
// down. Each is read between two stanzas and at the end of a stream, over all the usual segmentations.
func c02contentVariants(ns string) [][]c02elem {
	var streams [][]c02elem
	var first, last c02elem
	for _, e := range c02alphabet(ns) {
		switch e.name {
		case "message/standard":
			first = e
		case "iq/result-empty":
			last = e
		}
	}
	for _, e := range c02alphabet(ns) {
		if e.family != "plain" || e.kind == "" || e.kind == "stanza.Message" || e.kind == "stanza.Presence" || e.kind == "*stanza.IQ" {
			continue
		}
		x := e.xml
		name := x[1:strings.IndexAny(x, " />")]
		open, clos := "", "</"+name+">"
		if strings.HasSuffix(x, "/>") {
			open = x[:len(x)-2] + ">"
		} else {
			open = x[:strings.LastIndex(x, "</")]
		}
		self := strings.Replace(x, " id='sm1'", " id='inner'", 1)
		for vi, content := range []string{
			" \n\t",
			"<x xmlns='urn:unknown'/>",
			"<ext xmlns='urn:unknown'><note/></ext>",
			"<ext xmlns='urn:unknown'><note>text<deeper a='1'>more</deeper></note><other/></ext>",
			"<wrap xmlns='urn:unknown'><message xmlns='" + ns + "' id='hidden' from='x@y'><body>hidden</body></message></wrap>",
			"<wrap xmlns='urn:unknown'><inner>" + self + "</inner></wrap>",
		} {
			fam := "unknown-child"
			if vi >= 4 {
				fam = "descendant=same-name-same-ns"
			}
			v := c02elem{name: fmt.Sprintf("%s/content-%d", e.name, vi), xml: open + content + clos, kind: e.kind, id: e.id, typ: e.typ, from: e.from, family: fam}
			streams = append(streams, []c02elem{first, v, last}, []c02elem{v})
		}
	}
	return streams
}

type c02chunks struct {
	parts []string
	i     int
	reads int
}

func (c *c02chunks) Read(p []byte) (int, error) {
	c.reads++
	for c.i < len(c.parts) && c.parts[c.i] == "" {
		c.i++
	}
	if c.i >= len(c.parts) {
		return 0, io.EOF
	}
	n := copy(p, c.parts[c.i])
	c.parts[c.i] = c.parts[c.i][n:]
	return n, nil
}

func c02header(ns string) string {
	return "<?xml version='1.0'?><stream:stream xmlns='" + ns + "' xmlns:stream='http://etherx.jabber.org/streams' id='sid' version='1.0'>"
}

type c02res struct {
	kind          string
	id, typ, from string
	err           bool
	panicked      string
}

func c02attrs(p Packet) (id, typ, from string) {
	switch x := p.(type) {
	case Message:
		return x.Id, string(x.Type), x.From
	case Presence:
		return x.Id, string(x.Type), x.From
	case *IQ:
		if x != nil {
			return x.Id, string(x.Type), x.From
		}
	}
	return "", "", ""
}

// c02parse runs InitStream and then NextPacket until an error, at most maxCalls times.
func c02parse(parts []string, maxCalls int) (out []c02res, reads int, initErr bool) {
	r := &c02chunks{parts: append([]string{}, parts...)}
	defer func() {
		reads = r.reads
		if x := recover(); x != nil {
			out = append(out, c02res{panicked: fmt.Sprint(x)})
		}
	}()
	d := xml.NewDecoder(r)
	if _, err := InitStream(d); err != nil {
		return nil, r.reads, true
	}
	for i := 0; i < maxCalls; i++ {
		p, err := NextPacket(d)
		if err != nil {
			out = append(out, c02res{err: true})
			return
		}
		res := c02res{kind: reflect.TypeOf(p).String()}
		res.id, res.typ, res.from = c02attrs(p)
		out = append(out, res)
	}
	return
}

func c02tail(s string) string {
	if len(s) > 120 {
		return "..." + s[len(s)-120:]
	}
	return s
}

func c02segmentations(s string, quick bool) map[string][][]string {
	m := map[string][][]string{"whole": {{s}}}
	if quick && len(s) > 100000 {
		return m
	}
	var bytes []string
	for i := 0; i < len(s); i++ {
		bytes = append(bytes, s[i:i+1])
	}
	m["bytes"] = [][]string{bytes}
	var splits [][]string
	step := 1
	if quick && len(s) > 600 {
		step = 7
	}
	for i := 1; i < len(s); i += step {
		splits = append(splits, []string{s[:i], s[i:]})
	}
	m["split"] = splits
	return m
}

// c02checkStream: a well-formed stream of elements (then the stream close).
func c02checkStream(c *hx.Ctx, ns string, els []c02elem, withClose bool, quick bool) {
	c02checkStreamSel(c, ns, els, withClose, quick, true)
}

func c02checkStreamSel(c *hx.Ctx, ns string, els []c02elem, withClose bool, quick bool, allSplits bool) {
	var sb strings.Builder
	sb.WriteString(c02header(ns))
	for _, e := range els {
		sb.WriteString(e.xml)
	}
	if withClose {
		sb.WriteString("</stream:stream>")
	}
	full := sb.String()
	var names []string
	for _, e := range els {
		names = append(names, e.name)
	}
	in := fmt.Sprintf("ns=%s stream=%v close=%v", ns, names, withClose)
	for segName, segs := range c02segmentations(full, quick) {
		if segName == "split" && !allSplits {
			continue
		}
		for _, parts := range segs {
			c.Beat("C02|no-termination|well-formed", fmt.Sprintf("%s (%s, first chunk %d bytes)", in, segName, len(parts[0])))
			out, _, initErr := c02parse(parts, len(els)+3)
			c.Step(len(out))
			c.Eval(fmt.Sprintf("%s|%s|%d|%v", in, segName, len(parts[0]), out))
			if initErr {
				c.Fail("C02|stream-open-rejected", in, "%s (%s): InitStream failed on a well-formed header", in, segName)
				return
			}
			pos := 0
			for _, e := range els {
				if pos >= len(out) {
					c.Fail("C02|packet-missing|"+e.family, in, "%s (%s, first chunk %d bytes): only %d results for %d elements: %+v", in, segName, len(parts[0]), len(out), len(els), out)
					return
				}
				r := out[pos]
				pos++
				if r.panicked != "" {
					c.Fail("C02|panic|"+e.family, in, "%s: panic %s", in, r.panicked)
					return
				}
				if e.kind == "" {
					if !r.err {
						c.Fail("C02|unknown-element-accepted|"+e.name, in, "%s (%s): element %s produced a %s instead of an error", in, segName, e.name, r.kind)
					}
					return // nothing is asserted after an error
				}
				if r.err {
					c.Fail("C02|known-element-yields-error|"+e.family+"|"+strings.SplitN(e.name, "/", 2)[0], in, "%s (%s, first chunk %d bytes): element %s (%s) produced an error; results %+v", in, segName, len(parts[0]), e.name, e.xml, out)
					return
				}
				if r.kind != e.kind {
					c.Fail("C02|wrong-kind|"+e.family, in, "%s (%s): element %s produced %s, want %s", in, segName, e.name, r.kind, e.kind)
					return
				}
				if r.id != e.id || r.typ != e.typ || r.from != e.from {
					c.Fail("C02|wrong-addressing|"+e.family+"|"+strings.SplitN(e.name, "/", 2)[0], in, "%s (%s): element %s gave id=%q type=%q from=%q, want %q %q %q", in, segName, e.name, r.id, r.typ, r.from, e.id, e.typ, e.from)
					return
				}
			}
			// after the elements: stream close packet, or an end-of-input error
			if pos >= len(out) {
				c.Fail("C02|no-end-report", in, "%s (%s): no result after the last element", in, segName)
				return
			}
			r := out[pos]
			if withClose {
				if r.err || r.kind != "stanza.StreamClosePacket" {
					c.Fail("C02|stream-close-not-reported", in, "%s (%s): after the elements got %+v, want the stream close packet", in, segName, r)
					return
				}
				pos++
				if pos >= len(out) || !out[pos].err {
					c.Fail("C02|no-error-at-end-of-input", in, "%s (%s): after the stream close got %+v", in, segName, out[pos:])
				}
			} else if !r.err {
				c.Fail("C02|extra-packet", in, "%s (%s): an extra packet %+v after %d elements", in, segName, r, len(els))
			}
		}
	}
}

// c02checkTotal: truncations and single-byte corruptions: no panic, an error within
// bounded calls, complete elements of a prefix still delivered, incomplete ones never.
func c02checkTotal(c *hx.Ctx, ns string, els []c02elem, thorough bool) {
	hdr := c02header(ns)
	var sb strings.Builder
	sb.WriteString(hdr)
	var ends []int
	for _, e := range els {
		sb.WriteString(e.xml)
		ends = append(ends, sb.Len())
	}
	full := sb.String()
	var names []string
	for _, e := range els {
		names = append(names, e.name)
	}
	in := fmt.Sprintf("ns=%s stream=%v", ns, names)
	maxCalls := len(els) + 2
	// truncation at every byte
	for cut := 0; cut <= len(full); cut++ {
		c.Beat("C02|no-termination|truncated", fmt.Sprintf("%s truncated at byte %d: %q", in, cut, c02tail(full[:cut])))
		out, reads, initErr := c02parse([]string{full[:cut]}, maxCalls+3)
		c.Step(len(out) + 1)
		c.Eval(fmt.Sprintf("trunc|%s|%d|%v|%v", in, cut, initErr, out))
		if reads > cut+3 {
			c.Fail("C02|unbounded-reads", in, "%s truncated at %d: %d reader calls", in, cut, reads)
		}
		if initErr {
			if cut >= len(hdr) {
				c.Fail("C02|stream-open-rejected", in, "%s truncated at %d: InitStream failed although the header is complete", in, cut)
			}
			continue
		}
		complete := 0
		for _, e := range ends {
			if cut >= e {
				complete++
			}
		}
		ok := true
		for i := 0; i < len(out); i++ {
			if out[i].panicked != "" {
				c.Fail("C02|panic|truncated", in, "%s truncated at %d: panic %s", in, cut, out[i].panicked)
				ok = false
			}
		}
		if !ok {
			continue
		}
		if len(out) == 0 || !out[len(out)-1].err {
			c.Fail("C02|no-error-on-truncated-input", in, "%s truncated at %d: results %+v do not end with an error", in, cut, out)
			continue
		}
		got := len(out) - 1
		// elements expected before the first error: all complete ones up to the first unknown element
		want := 0
		for i := 0; i < complete; i++ {
			if els[i].kind == "" {
				break
			}
			want++
		}
		stopAtUnknown := want < complete
		if got > want {
			c.Fail("C02|incomplete-element-delivered", in, "%s truncated at byte %d (%d complete elements): %d packets delivered: %+v", in, cut, complete, got, out)
		} else if got < want && !stopAtUnknown {
			fam := els[got].family
			c.Fail("C02|complete-element-not-delivered|"+fam, in, "%s truncated at byte %d: %d elements are complete but only %d packets were delivered: %+v", in, cut, complete, got, out)
		}
	}
	// single-byte substitutions
	subs := []byte{'<', '>', '/', '&', '"', '\'', '=', ' ', 0, 0x80, 0xff}
	step := 1
	if !thorough && len(full) > 400 {
		step = 3
	}
	for pos := len(hdr); pos < len(full); pos += step {
		for _, b := range subs {
			if full[pos] == b {
				continue
			}
			mut := full[:pos] + string([]byte{b}) + full[pos+1:]
			c.Beat("C02|no-termination|corrupted", fmt.Sprintf("%s with byte %d replaced by %q", in, pos, b))
			out, reads, _ := c02parse([]string{mut}, maxCalls+3)
			c.Step(len(out) + 1)
			c.Eval(fmt.Sprintf("corrupt|%s|%d|%d|%v", in, pos, b, out))
			for _, r := range out {
				if r.panicked != "" {
					c.Fail("C02|panic|corrupted", in, "%s with byte %d replaced by %q: panic %s", in, pos, b, r.panicked)
				}
			}
			if len(out) == 0 || !out[len(out)-1].err {
				c.Fail("C02|no-error-on-corrupted-input", in, "%s with byte %d replaced by %q: results %+v do not end with an error", in, pos, b, out)
			}
			if len(out)-1 > len(els)+1 {
				c.Fail("C02|too-many-packets-on-corrupted-input", in, "%s with byte %d replaced by %q: %d packets", in, pos, b, len(out)-1)
			}
			if reads > len(mut)+3 {
				c.Fail("C02|unbounded-reads", in, "%s corrupted at %d: %d reader calls", in, pos, reads)
			}
		}
	}
}

func TestVerifC02(t *testing.T) {
	if v := os.Getenv("VERIF_C02_DEEP"); v != "" {
		var dc c02deepCase
		if err := json.Unmarshal([]byte(v), &dc); err != nil {
			t.Fatal(err)
		}
		c02deepChild(dc)
		return
	}
	var scs []hx.Scenario
	quick := !hx.Thorough()
	for _, ns := range []string{NSClient, NSComponent} {
		ns := ns
		alpha := c02alphabet(ns)
		short := "client"
		if ns == NSComponent {
			short = "component"
		}
		for i := range alpha {
			i := i
			scs = append(scs, hx.Scenario{Name: fmt.Sprintf("%s/streams/first=%s", short, alpha[i].name), Run: func(c *hx.Ctx) {
				c02checkStream(c, ns, []c02elem{alpha[i]}, true, quick)
				c02checkStream(c, ns, []c02elem{alpha[i]}, false, quick)
				for j := range alpha {
					if c.Expired() {
						return
					}
					c02checkStreamSel(c, ns, []c02elem{alpha[i], alpha[j]}, j%2 == 0, quick, !quick || (i+j)%3 == 0)
					if !quick || (i+j)%7 == 0 {
						for k := range alpha {
							if quick && k%5 != 0 {
								continue
							}
							c02checkStream(c, ns, []c02elem{alpha[i], alpha[j], alpha[k]}, k%2 == 0, true)
						}
					}
				}
				c.Sample(map[string]string{"ns": ns, "first": alpha[i].name, "xml": alpha[i].xml})
			}})
			scs = append(scs, hx.Scenario{Name: fmt.Sprintf("%s/total/first=%s", short, alpha[i].name), Run: func(c *hx.Ctx) {
				c02checkTotal(c, ns, []c02elem{alpha[i]}, !quick)
				for j := range alpha {
					if quick && (i+j)%4 != 0 {
						continue
					}
					if c.Expired() {
						return
					}
					c02checkTotal(c, ns, []c02elem{alpha[i], alpha[j]}, !quick)
				}
			}})
		}
	}
	for _, ns := range []string{NSClient, NSComponent} {
		ns := ns
		scs = append(scs, hx.Scenario{Name: "stalled-reader/" + ns, Run: func(c *hx.Ctx) { c02stallScenario(c, ns) }})
		scs = append(scs, hx.Scenario{Name: "content-variants/" + ns, Run: func(c *hx.Ctx) {
			for _, st := range c02contentVariants(ns) {
				c02checkStream(c, ns, st, true, false)
				c02checkStream(c, ns, st, false, false)
			}
			c.Sample(map[string]string{"ns": ns, "xml": "<r xmlns='urn:xmpp:sm:3'><ext xmlns='urn:unknown'><note/></ext></r>"})
		}})
	}
	scs = append(scs, c02deepScenarios()...)
	scs = append(scs, c02treeScenarios()...)
	if hx.Main("C02", scs) == 2 {
		t.Fatal("internal error")
	}
}

// A reader that has nothing more to give and says so by returning (0, nil), call after call: bufio gives up after
// 100 such reads (io.ErrNoProgress). Reading the stream must then end with an error, not go round in circles.
type c02stall struct {
	data  string
	reads int
	empty int
}

func (s *c02stall) Read(p []byte) (int, error) {
	s.reads++
	if s.data == "" {
		s.empty++
		if s.empty > 100000 {
			return 0, io.ErrUnexpectedEOF // the harness's own bound, far beyond what any reader loop needs
		}
		return 0, nil
	}
	n := copy(p, s.data)
	s.data = s.data[n:]
	return n, nil
}

func c02stallScenario(c *hx.Ctx, ns string) {
	alpha := c02alphabet(ns)
	for _, el := range alpha {
		// the reader stalls behind a complete element, inside the next start tag, and inside the next element's content
		for _, tail := range []string{"", "<message id='cut'", "<message id='cut'><body>te"} {
			doc := c02header(ns) + el.xml + tail
			in := fmt.Sprintf("%s followed by %q, then a reader that keeps returning (0, nil)", el.name, tail)
			c.Beat("C02|no-termination|stalled-reader", in)
			r := &c02stall{data: doc}
			d := xml.NewDecoder(r)
			c.Step(1)
			if _, err := InitStream(d); err != nil {
				c.Fail("C02|stream-open-rejected", in, "%s: InitStream failed", in)
				continue
			}
			var kinds []string
			ended := false
			for i := 0; i < 4; i++ {
				p, err := NextPacket(d)
				if err != nil {
					ended = true
					break
				}
				kinds = append(kinds, reflect.TypeOf(p).String())
			}
			c.Eval(fmt.Sprint(el.name, tail, kinds, ended, r.empty > 100000))
			if !ended {
				c.Fail("C02|stalled-reader-yields-packets", in, "%s: packets %v and still no error", in, kinds)
			}
			if r.empty > 100000 {
				c.Fail("C02|unbounded-reads|stalled-reader", in, "%s: the reader was called more than 100000 times after it had nothing left", in)
			}
			want := 0
			if el.kind != "" {
				want = 1
			}
			if len(kinds) > want {
				c.Fail("C02|incomplete-element-delivered|stalled-reader", in, "%s: packets %v", in, kinds)
			}
		}
	}
	c.Sample(map[string]string{"reader": "complete element, then (0, nil) for ever", "ns": ns})
}
