//go:build verif

package stanza

import (
	"context"
	"encoding/json"
	"encoding/xml"
	"fmt"
	"os"
	"os/exec"
	"strings"
	"time"

	"verif/hx"
)

// C02, "arbitrarily deep nesting": the nesting depth of what an element contains is chosen by the
// peer. Every place where a top-level element can carry foreign content is filled with a chain of
// nested elements of each depth of a small alphabet that crosses encoding/xml's own limit (10000) and
// reaches the size at which a decoder that recurses once per level exhausts the goroutine stack (a
// fatal error that cannot be recovered from). Each case runs in a child process, because the failure
// looked for kills the process.

type c02deepCase struct {
	NS    string `json:"ns"`
	Shape string `json:"shape"`
	Depth int    `json:"depth"`
	Trunc bool   `json:"trunc"`
}

type c02deepResult struct {
	Kinds  []string `json:"kinds"`
	Ids    []string `json:"ids"`
	Err    string   `json:"err"`
	TookMs int64    `json:"took_ms"`
}

type c02deepShape struct {
	name string
	kind string
	// build returns the bytes up to and including the innermost start tag, and the bytes closing it all
	build func(ns string, depth int) (string, string)
}

func c02deepChain(depth int) (string, string) {
	return strings.Repeat("<a>", depth), strings.Repeat("</a>", depth)
}

func c02deepShapes() []c02deepShape {
	in := func(kind, open, clos string) c02deepShape {
		return c02deepShape{kind: kind, build: func(ns string, depth int) (string, string) {
			o, c := c02deepChain(depth)
			return open + o, c + clos
		}}
	}
	named := func(name string, s c02deepShape) c02deepShape { s.name = name; return s }
	cycle := func(kind, st string) c02deepShape {
		return c02deepShape{kind: kind, build: func(ns string, depth int) (string, string) {
			o := "<" + st + " id='deep' type='set'><delegation xmlns='urn:xmpp:delegation:1'><forwarded xmlns='urn:xmpp:forward:0'>"
			c := "</forwarded></delegation></" + st + ">"
			inner := "<" + st + " xmlns='jabber:client' id='in' type='set'><delegation xmlns='urn:xmpp:delegation:1'><forwarded xmlns='urn:xmpp:forward:0'>"
			return o + strings.Repeat(inner, depth-1), strings.Repeat(c, depth)
		}}
	}
	return []c02deepShape{
		named("iq-unknown-payload", in("*stanza.IQ", "<iq id='deep' type='get'><x xmlns='urn:unknown'>", "</x></iq>")),
		named("iq-error-foreign-child", in("*stanza.IQ", "<iq id='deep' type='error'><error type='cancel'><x xmlns='urn:unknown'>", "</x></error></iq>")),
		named("iq-known-payload-unknown-child", in("*stanza.IQ", "<iq id='deep' type='result'><query xmlns='http://jabber.org/protocol/disco#info'><x xmlns='urn:unknown'>", "</x></query></iq>")),
		named("message-unknown-ext", in("stanza.Message", "<message id='deep'><x xmlns='urn:unknown'>", "</x></message>")),
		named("message-error-foreign-child", in("stanza.Message", "<message id='deep' type='error'><error type='cancel'><x xmlns='urn:unknown'>", "</x></error></message>")),
		named("message-pubsub-item-payload", in("stanza.Message", "<message id='deep'><event xmlns='http://jabber.org/protocol/pubsub#event'><items node='n'><item id='i'><x xmlns='urn:unknown'>", "</x></item></items></event></message>")),
		named("message-body-children", in("stanza.Message", "<message id='deep'><body>", "</body></message>")),
		named("presence-unknown-ext", in("stanza.Presence", "<presence id='deep'><x xmlns='urn:unknown'>", "</x></presence>")),
		named("features-unknown-child", in("stanza.StreamFeatures", "<stream:features><x xmlns='urn:unknown'>", "</x></stream:features>")),
		named("stream-error-child", in("stanza.StreamError", "<stream:error><host-unknown xmlns='urn:ietf:params:xml:ns:xmpp-streams'/><x xmlns='urn:unknown'>", "</x></stream:error>")),
		named("sasl-failure-child", in("stanza.SASLFailure", "<failure xmlns='urn:ietf:params:xml:ns:xmpp-sasl'><not-authorized/><x xmlns='urn:unknown'>", "</x></failure>")),
		named("sm-failed-condition-children", in("stanza.SMFailed", "<failed xmlns='urn:xmpp:sm:3'><item-not-found xmlns='urn:ietf:params:xml:ns:xmpp-stanzas'>", "</item-not-found></failed>")),
		named("sm-answer-child", in("stanza.SMAnswer", "<a xmlns='urn:xmpp:sm:3' h='1'><x xmlns='urn:unknown'>", "</x></a>")),
		named("unknown-namespace", in("", "<x xmlns='urn:totally:unknown'>", "</x>")),
		named("iq-forwarded-chain", cycle("*stanza.IQ", "iq")),
		named("message-forwarded-chain", cycle("stanza.Message", "message")),
	}
}

func c02deepChild(dc c02deepCase) {
	var shape c02deepShape
	for _, s := range c02deepShapes() {
		if s.name == dc.Shape {
			shape = s
		}
	}
	open, clos := shape.build(dc.NS, dc.Depth)
	doc := c02header(dc.NS) + open
	if !dc.Trunc {
		doc += clos + "<iq id='after' type='result'/>"
	}
	d := xml.NewDecoder(strings.NewReader(doc))
	res := c02deepResult{}
	t0 := time.Now()
	if _, err := InitStream(d); err != nil {
		res.Err = "InitStream: " + err.Error()
	}
	for i := 0; i < 4 && res.Err == ""; i++ {
		p, err := NextPacket(d)
		if err != nil {
			res.Err = err.Error()
			if len(res.Err) > 200 {
				res.Err = res.Err[:200]
			}
			break
		}
		id, _, _ := c02attrs(p)
		res.Kinds = append(res.Kinds, fmt.Sprintf("%T", p))
		res.Ids = append(res.Ids, id)
	}
	res.TookMs = time.Since(t0).Milliseconds()
	b, _ := json.Marshal(res)
	fmt.Println("DEEPRESULT " + string(b))
}

func c02deepScenarios() []hx.Scenario {
	depths := []int{100, 10001, 1000000}
	if hx.Thorough() {
		depths = []int{100, 9999, 10001, 100000, 1000000, 2000000}
	}
	var scs []hx.Scenario
	for _, shape := range c02deepShapes() {
		shape := shape
		scs = append(scs, hx.Scenario{Name: "deep/shape=" + shape.name, Run: func(c *hx.Ctx) {
			for _, depth := range depths {
				for _, trunc := range []bool{false, true} {
					if c.Expired() {
						return
					}
					dc := c02deepCase{NS: NSClient, Shape: shape.name, Depth: depth, Trunc: trunc}
					b, _ := json.Marshal(dc)
					ctx, cancel := context.WithTimeout(context.Background(), 150*time.Second)
					cmd := exec.CommandContext(ctx, os.Args[0], "-test.run", "^TestVerifC02$", "-test.timeout", "200s")
					cmd.Env = append(os.Environ(), "VERIF_C02_DEEP="+string(b), "VERIF_OUT=", "VERIF_SHARD=")
					c.Beat("C02|deep|harness-stall|shape="+shape.name, string(b))
					out, err := cmd.CombinedOutput()
					timedOut := ctx.Err() != nil
					cancel()
					c.Step(1)
					res := c02deepResult{}
					found := false
					for _, line := range strings.Split(string(out), "\n") {
						if strings.HasPrefix(line, "DEEPRESULT ") {
							found = json.Unmarshal([]byte(line[11:]), &res) == nil
						}
					}
					in := fmt.Sprintf("deep nesting %s", string(b))
					c.Eval(fmt.Sprint(shape.name, depth, trunc, res.Kinds, res.Ids, res.Err != ""))
					key := func(cls string) string { return "C02|deep|" + cls + "|shape=" + shape.name }
					want := []string{shape.kind, "*stanza.IQ"}
					wantIds := []string{"deep", "after"}
					if shape.kind != "*stanza.IQ" && shape.kind != "stanza.Message" && shape.kind != "stanza.Presence" {
						wantIds[0] = ""
					}
					switch {
					case !found:
						head := string(out)
						if len(head) > 600 {
							head = head[:600]
						}
						cls := "crash"
						switch {
						case timedOut:
							cls = "unbounded-time"
						case strings.Contains(head, "stack overflow"):
							cls = "stack-overflow"
						case strings.Contains(head, "panic:"):
							cls = "panic"
						}
						c.Fail(key(cls), in, "%s: the process reading the stream died (err %v): %s", in, err, head)
					case trunc:
						if res.Err == "" || len(res.Kinds) != 0 {
							c.Fail(key("truncated-accepted"), in, "%s: a stream that ends inside the element gave packets %v and error %q", in, res.Kinds, res.Err)
						}
					case shape.kind == "":
						if len(res.Kinds) > 0 && res.Kinds[0] != "*stanza.IQ" {
							c.Fail(key("unknown-accepted"), in, "%s: got packets %v %v", in, res.Kinds, res.Ids)
						}
					case len(res.Kinds) != 2 || res.Kinds[0] != want[0] || res.Kinds[1] != want[1] || res.Ids[0] != wantIds[0] || res.Ids[1] != wantIds[1]:
						c.Fail(key("wrong-packets"), in, "%s: want kinds %v ids %v then the end of the input, got kinds %v ids %v err %q", in, want, wantIds, res.Kinds, res.Ids, res.Err)
					}
				}
			}
			c.Sample(map[string]any{"shape": shape.name, "depths": depths})
		}})
	}
	return scs
}
