//go:build verif

package stanza

import (
	"context"
	"encoding/json"
	"encoding/xml"
	"fmt"
	"os"
	"os/exec"
	"strings"
	"time"

	"verif/hx"
)

// C01, "arbitrary generic node trees": the depth of a generic payload is not bounded by the library (a
// tree that was received is as deep as the peer made it). A chain of nested nodes of each depth of a
// small alphabet is serialized, parsed back and serialized again; the first output is compared with the
// text written out directly, the second with the first. Each case runs in a child process: the failure
// looked for (one stack frame per level until the goroutine stack limit) kills the process.

type c01deepCase struct {
	Shape string `json:"shape"`
	Depth int    `json:"depth"`
}

type c01deepResult struct {
	Stage string `json:"stage"` // "" = fine, else what went wrong
	Info  string `json:"info"`
}

func c01deepChain(depth int) *Node {
	root := &Node{XMLName: xml.Name{Space: "urn:c01:deep", Local: "n"}, Attrs: []xml.Attr{{Name: xml.Name{Local: "k"}, Value: "top"}}}
	cur := root
	for i := 1; i < depth; i++ {
		cur.Nodes = []Node{{XMLName: xml.Name{Space: "urn:c01:deep", Local: "n"}}}
		cur = &cur.Nodes[0]
	}
	cur.Content = "leaf&<"
	return root
}

func c01deepText(depth int) string {
	return `<n xmlns="urn:c01:deep" k="top">` + strings.Repeat(`<n xmlns="urn:c01:deep">`, depth-1) + "leaf&amp;&lt;" + strings.Repeat("</n>", depth)
}

func c01deepChild(dc c01deepCase) {
	res := c01deepResult{}
	defer func() {
		b, _ := json.Marshal(res)
		fmt.Println("DEEPRESULT " + string(b))
	}()
	var v interface{}
	var want string
	switch dc.Shape {
	case "iq-any":
		v = &IQ{Attrs: Attrs{Id: "d1", Type: IQTypeGet}, Any: c01deepChain(dc.Depth)}
		want = c01deepText(dc.Depth) + `</iq>`
	case "pubsub-item-any":
		v = &Message{Attrs: Attrs{Id: "d1"}, Extensions: []MsgExtension{&PubSubEvent{EventElement: &ItemsEvent{Node: "nd", Items: []ItemEvent{{Id: "i1", Any: c01deepChain(dc.Depth)}}}}}}
		want = `<item id="i1">` + c01deepText(dc.Depth) + `</item></items></event></message>`
	}
	b1, err := xml.Marshal(v)
	if err != nil {
		res.Stage, res.Info = "marshal-error", err.Error()
		return
	}
	// the payload and everything after it, as written out directly (the stanza's own start tag is the
	// business of the other scenarios)
	if !strings.HasSuffix(string(b1), want) || len(b1) > len(want)+200 {
		res.Stage, res.Info = "first-output-wrong", fmt.Sprintf("%d bytes, want %d; head %q", len(b1), len(want), c01clip(b1))
		return
	}
	var b2 []byte
	switch dc.Shape {
	case "iq-any":
		var back IQ
		if err := xml.Unmarshal(b1, &back); err != nil {
			res.Stage, res.Info = "parse-error", err.Error()
			return
		}
		b2, err = xml.Marshal(&back)
	default:
		var back Message
		if err := xml.Unmarshal(b1, &back); err != nil {
			res.Stage, res.Info = "parse-error", err.Error()
			return
		}
		b2, err = xml.Marshal(&back)
	}
	if err != nil {
		res.Stage, res.Info = "marshal-error", "second: "+err.Error()
		return
	}
	if string(b2) != string(b1) {
		res.Stage, res.Info = "reserialize-differs", fmt.Sprintf("second output has %d bytes, first %d", len(b2), len(b1))
	}
}

func c01deepScenarios() []hx.Scenario {
	depths := []int{1000, 1000000}
	if hx.Thorough() {
		depths = []int{1, 2, 1000, 9999, 10001, 100000, 1000000, 2000000}
	}
	var scs []hx.Scenario
	for _, shape := range []string{"iq-any", "pubsub-item-any"} {
		shape := shape
		scs = append(scs, hx.Scenario{Name: "deep/" + shape, Run: func(c *hx.Ctx) {
			for _, depth := range depths {
				if c.Expired() {
					return
				}
				b, _ := json.Marshal(c01deepCase{Shape: shape, Depth: depth})
				ctx, cancel := context.WithTimeout(context.Background(), 150*time.Second)
				cmd := exec.CommandContext(ctx, os.Args[0], "-test.run", "^TestVerifC01$", "-test.timeout", "200s")
				cmd.Env = append(os.Environ(), "VERIF_C01_DEEP="+string(b), "VERIF_OUT=", "VERIF_SHARD=")
				c.Beat("C01|deep|harness-stall|"+shape, string(b))
				out, err := cmd.CombinedOutput()
				timedOut := ctx.Err() != nil
				cancel()
				res := c01deepResult{}
				found := false
				for _, line := range strings.Split(string(out), "\n") {
					if strings.HasPrefix(line, "DEEPRESULT ") {
						found = json.Unmarshal([]byte(line[11:]), &res) == nil
					}
				}
				in := "generic node chain " + string(b)
				c.Eval(fmt.Sprint(shape, depth, found, res.Stage))
				switch {
				case !found:
					head := string(out)
					if len(head) > 600 {
						head = head[:600]
					}
					cls := "crash"
					switch {
					case timedOut:
						cls = "unbounded-time"
					case strings.Contains(head, "stack overflow"):
						cls = "stack-overflow"
					case strings.Contains(head, "panic:"):
						cls = "panic"
					}
					c.Fail("C01|deep|"+cls+"|"+shape, in, "%s: the process died (err %v): %s", in, err, head)
				case res.Stage != "":
					c.Fail("C01|deep|"+res.Stage+"|"+shape, in, "%s: %s", in, res.Info)
				}
			}
			c.Sample(map[string]any{"shape": shape, "depths": depths})
		}})
	}
	return scs
}
