//go:build verif

package stanza

import (
	"fmt"
	"strings"
	"testing"
	"unicode"

	"verif/hx"
)

// C15: JID parsing and formatting. Reference parser written from the property text.

type c15ref struct {
	ok                      bool
	local, domain, resource string
}

func c15forbidden(s string, set string) bool {
	for _, r := range s {
		if unicode.IsSpace(r) || strings.ContainsRune(set, r) {
			return true
		}
	}
	return false
}

// c15parse: [local@]domain[/resource]; split at the first '@', then the first '/'.
// asserted=false when the property leaves the input open ('/' before the first '@').
func c15parse(s string) (ref c15ref, asserted bool) {
	asserted = true
	if s == "" {
		return c15ref{}, true
	}
	at := strings.Index(s, "@")
	if at >= 0 && strings.Contains(s[:at], "/") {
		return c15ref{}, false
	}
	rest := s
	hasLocal := false
	if at >= 0 {
		ref.local = s[:at]
		rest = s[at+1:]
		hasLocal = true
	}
	if sl := strings.Index(rest, "/"); sl >= 0 {
		ref.domain, ref.resource = rest[:sl], rest[sl+1:]
	} else {
		ref.domain = rest
	}
	if hasLocal && ref.local == "" {
		return c15ref{}, true
	}
	if ref.domain == "" {
		return c15ref{}, true
	}
	if c15forbidden(ref.local, "@/'\":<>") {
		return c15ref{}, true
	}
	if c15forbidden(ref.domain, "@/") {
		return c15ref{}, true
	}
	ref.ok = true
	return ref, true
}

func c15shape(s string) string {
	// class of the input for violation keys: which parts are present
	at := strings.Index(s, "@")
	rest := s
	k := "domain"
	if at >= 0 {
		k = "local@domain"
		rest = s[at+1:]
	}
	if strings.Contains(rest, "/") {
		k += "/resource"
	}
	return k
}

func c15check(c *hx.Ctx, s string) {
	ref, asserted := c15parse(s)
	j, err := NewJid(s)
	out := "rej"
	if err == nil && j != nil {
		out = "acc:" + j.Node + "\x00" + j.Domain + "\x00" + j.Resource
	}
	c.Eval(out)
	if !asserted {
		return
	}
	if (err == nil) != ref.ok {
		if ref.ok {
			c.Fail("C15|rejects-valid|"+c15shape(s), s, "NewJid(%q) rejected (%v) but the reference accepts it as (%q,%q,%q)", s, err, ref.local, ref.domain, ref.resource)
		} else {
			c.Fail("C15|accepts-malformed|"+c15shape(s), s, "NewJid(%q) accepted as %+v but the reference rejects it", s, j)
		}
		return
	}
	if !ref.ok {
		return
	}
	if j.Node != ref.local || j.Domain != ref.domain || j.Resource != ref.resource {
		c.Fail("C15|wrong-parts|"+c15shape(s), s, "NewJid(%q) = (%q,%q,%q), reference (%q,%q,%q)", s, j.Node, j.Domain, j.Resource, ref.local, ref.domain, ref.resource)
		return
	}
	full := j.Full()
	j2, err2 := NewJid(full)
	if err2 != nil || j2 == nil || *j2 != *j {
		c.Fail("C15|full-roundtrip|"+c15shape(s), s, "NewJid(%q).Full() = %q which parses to %+v (err %v), want %+v", s, full, j2, err2, *j)
	}
	bare := j.Bare()
	j3, err3 := NewJid(bare)
	want := Jid{Node: j.Node, Domain: j.Domain}
	if err3 != nil || j3 == nil || *j3 != want {
		c.Fail("C15|bare-roundtrip|"+c15shape(s), s, "NewJid(%q).Bare() = %q which parses to %+v (err %v), want %+v", s, bare, j3, err3, want)
	}
}

func TestVerifC15(t *testing.T) {
	alpha := []string{"a", "B", "1", ".", "-", "@", "/", " ", "\t", "'", "\"", ":", "<", ">", "é"}
	maxLen := 5
	if hx.Thorough() {
		maxLen = 7
	}
	var scs []hx.Scenario
	scs = append(scs, hx.Scenario{Name: "strings/len<=1", Run: func(c *hx.Ctx) {
		c15check(c, "")
		for _, a := range alpha {
			c15check(c, a)
		}
		c.Sample("@")
	}})
	for i := range alpha {
		for j := range alpha {
			prefix := alpha[i] + alpha[j]
			scs = append(scs, hx.Scenario{Name: fmt.Sprintf("strings/prefix=%q", prefix), Run: func(c *hx.Ctx) {
				var rec func(s string, n int)
				rec = func(s string, n int) {
					c15check(c, s)
					if n == maxLen || c.Expired() {
						return
					}
					for _, a := range alpha {
						rec(s+a, n+1)
					}
				}
				rec(prefix, 2)
				c.Sample(prefix + "@a/é")
			}})
		}
	}
	// structured triples over character classes
	locals := []string{"", "a", "user.name-1", "éß", "a b", "a\tb", "a b", "a\nb", "a@b", "a/b", "a'b", "a\"b", "a:b", "a<b", "a>b", " a", "a "}
	domains := []string{"", "d", "example.org", "éx.org", "d d", "d\td", "d\u0085d", "d@d", "d/d", "d:5222", "[::1]", "d'd"}
	resources := []string{"", "r", "Ré", "r/s", "r@s", "r/s@t/u", "r r", "/", "@", "r:'\"<>"}
	scs = append(scs, hx.Scenario{Name: "triples", Run: func(c *hx.Ctx) {
		for _, l := range locals {
			for _, d := range domains {
				for _, r := range resources {
					for _, form := range []int{0, 1, 2, 3} {
						var s string
						switch form {
						case 0:
							s = l + "@" + d + "/" + r
						case 1:
							s = l + "@" + d
						case 2:
							s = d + "/" + r
						case 3:
							s = d
						}
						c15check(c, s)
					}
				}
			}
		}
		c.Sample("user.name-1@example.org/r/s@t/u")
	}})
	// every character of the first planes' scripts, punctuation and spaces (all of Unicode's White_Space is
	// below U+3100), some beyond, and every lone byte that is not valid UTF-8, in each part of the address
	for part, mk := range map[string]func(ch string) []string{
		"local":    func(ch string) []string { return []string{"a" + ch + "b@d", ch + "@d/r", "l" + ch + "@d/r"} },
		"domain":   func(ch string) []string { return []string{"l@d" + ch + "d", ch + "d", "d" + ch + "/r", "l@" + ch} },
		"resource": func(ch string) []string { return []string{"l@d/r" + ch + "s", "d/" + ch} },
	} {
		part, mk := part, mk
		scs = append(scs, hx.Scenario{Name: "characters/" + part, Run: func(c *hx.Ctx) {
			var chars []string
			for r := rune(0); r < 0x3100; r++ {
				chars = append(chars, string(r))
			}
			for _, r := range []rune{0xD7FF, 0xE000, 0xFEFF, 0xFFFD, 0xFFFF, 0x10000, 0x1F600, 0xE0020, 0x10FFFF} {
				chars = append(chars, string(r))
			}
			for b := 0x80; b <= 0xFF; b++ {
				chars = append(chars, string([]byte{byte(b)}))
			}
			for _, ch := range chars {
				for _, s := range mk(ch) {
					c15check(c, s)
				}
			}
			c.Sample(map[string]any{"part": part, "characters": len(chars)})
		}})
	}
	if hx.Main("C15", scs) == 2 {
		t.Fatal("internal error")
	}
}
