//go:build verif

package stanza

import (
	"encoding/xml"
	"fmt"
	"strings"

	"verif/hx"
)

// C02, "whatever the element contains": the generic payload of an IQ is read through NextPacket for
// every sequence of content pieces up to a length bound, and the tree that comes out is compared with
// a reference that does not share code with Node.UnmarshalXML: the same bytes decoded by encoding/xml's
// own struct-tag driven decoder into a plain mirror type.

type c02refNode struct {
	XMLName xml.Name
	Attrs   []xml.Attr   `xml:",any,attr"`
	Content string       `xml:",chardata"`
	Nodes   []c02refNode `xml:",any"`
}

func c02refEqual(r *c02refNode, n *Node, path string) string {
	if r.XMLName != n.XMLName {
		return fmt.Sprintf("%s: name %v, reference %v", path, n.XMLName, r.XMLName)
	}
	var ra []xml.Attr
	for _, a := range r.Attrs {
		if a.Name.Local != "xmlns" && a.Name.Space != "xmlns" {
			ra = append(ra, a)
		}
	}
	if fmt.Sprint(ra) != fmt.Sprint(n.Attrs) {
		return fmt.Sprintf("%s: attributes %v, reference %v", path, n.Attrs, ra)
	}
	if r.Content != n.Content {
		return fmt.Sprintf("%s: content %q, reference %q", path, n.Content, r.Content)
	}
	if len(r.Nodes) != len(n.Nodes) {
		return fmt.Sprintf("%s: %d children, reference %d", path, len(n.Nodes), len(r.Nodes))
	}
	for i := range r.Nodes {
		if d := c02refEqual(&r.Nodes[i], &n.Nodes[i], fmt.Sprintf("%s/%d", path, i)); d != "" {
			return d
		}
	}
	return ""
}

type c02piece struct {
	name, text string
	open       int // +1 opens an element, -1 closes the innermost one
	tag        string
}

func c02pieces() []c02piece {
	return []c02piece{
		{name: "open-a", text: "<a>", open: 1, tag: "a"},
		{name: "open-b-attrs", text: "<b k='v' xml:lang='en' xmlns:p='urn:p' p:q='w'>", open: 1, tag: "b"},
		{name: "open-ns", text: "<c xmlns='urn:other'>", open: 1, tag: "c"},
		{name: "close", open: -1},
		{name: "empty", text: "<e k='1'/>"},
		{name: "text", text: "t&amp;x"},
		{name: "space", text: " \n"},
		{name: "cdata", text: "<![CDATA[<raw>]]>"},
		{name: "comment", text: "<!-- c -->"},
		{name: "procinst", text: "<?pi data?>"},
	}
}

func c02treeScenario(c *hx.Ctx, first int, maxLen int) {
	pieces := c02pieces()
	var rec func(seq []int, stack []string, doc string)
	check := func(seq []int, inner string) {
		payload := "<x xmlns='urn:unknown' top='1'>" + inner + "</x>"
		doc := c02header(NSClient) + "<iq id='t1' type='get'>" + payload + "</iq><iq id='after' type='result'/>"
		names := make([]string, len(seq))
		for i, s := range seq {
			names[i] = pieces[s].name
		}
		in := fmt.Sprintf("IQ payload content %v: %s", names, payload)
		c.Beat("C02|node-tree|stall", in)
		d := xml.NewDecoder(strings.NewReader(doc))
		if _, err := InitStream(d); err != nil {
			c.Fail("C02|node-tree|harness", in, "InitStream: %v", err)
			return
		}
		p, err := NextPacket(d)
		c.Step(1)
		var ref c02refNode
		if rerr := xml.Unmarshal([]byte(payload), &ref); rerr != nil {
			c.Fail("C02|node-tree|harness", in, "reference decoder: %v", rerr)
			return
		}
		iq, ok := p.(*IQ)
		if err != nil || !ok || iq == nil || iq.Any == nil {
			c.Fail("C02|node-tree|not-a-packet", in, "%s: packet %T, error %v", in, p, err)
			return
		}
		if diff := c02refEqual(&ref, iq.Any, "x"); diff != "" {
			c.Fail("C02|node-tree|differs-from-reference", in, "%s: %s", in, diff)
		}
		p2, err2 := NextPacket(d)
		if iq2, ok := p2.(*IQ); err2 != nil || !ok || iq2.Id != "after" {
			c.Fail("C02|node-tree|desynchronised", in, "%s: the next element came out as %T (%v)", in, p2, err2)
		}
		c.Eval(fmt.Sprint(names, iq.Any))
	}
	rec = func(seq []int, stack []string, doc string) {
		if c.Expired() {
			return
		}
		// close what is open and check
		closing := ""
		for i := len(stack) - 1; i >= 0; i-- {
			closing += "</" + stack[i] + ">"
		}
		if len(seq) > 0 {
			check(seq, doc+closing)
		}
		if len(seq) >= maxLen {
			return
		}
		for pi, pc := range pieces {
			if len(seq) == 0 && pi != first {
				continue
			}
			seq, stack := append([]int{}, seq...), append([]string{}, stack...)
			switch pc.open {
			case 1:
				rec(append(seq, pi), append(stack, pc.tag), doc+pc.text)
			case -1:
				if len(stack) > 0 {
					rec(append(seq, pi), stack[:len(stack)-1], doc+"</"+stack[len(stack)-1]+">")
				}
			default:
				rec(append(seq, pi), stack, doc+pc.text)
			}
		}
	}
	rec(nil, nil, "")
}

func c02treeScenarios() []hx.Scenario {
	maxLen := 5
	if hx.Thorough() {
		maxLen = 7
	}
	var scs []hx.Scenario
	for pi, pc := range c02pieces() {
		if pc.open == -1 {
			continue
		}
		pi := pi
		scs = append(scs, hx.Scenario{Name: "node-tree/first=" + pc.name, Run: func(c *hx.Ctx) {
			c02treeScenario(c, pi, maxLen)
			c.Sample(map[string]any{"first": pieces0(pi), "max_pieces": maxLen})
		}})
	}
	return scs
}

func pieces0(i int) string { return c02pieces()[i].name }
