//go:build verif

package xmpp

import (
	"fmt"
	"strconv"
	"strings"
	"testing"
	"time"

	"gosrc.io/xmpp/stanza"

	"verif/hx"
	"verif/vrt"
)

// C09: the handled-stanza count the client reports equals the number of stanzas
// (message, presence, iq) it received on the stream-managed session.

var c09alphabet = []string{"message", "presence", "iq", "iq-resp", "r", "a", "features"}

func c09wire(sym string, n int) string {
	switch sym {
	case "message":
		return fmt.Sprintf("<message from='peer@example.org/x' id='m%d' type='chat'><body>hello &amp; %d</body></message>", n, n)
	case "presence":
		return fmt.Sprintf("<presence from='peer@example.org/x' id='p%d'><show>away</show></presence>", n)
	case "iq":
		return fmt.Sprintf("<iq from='example.org' id='q%d' type='result'/>", n)
	case "iq-resp":
		// the answer to a request the client has pending through SendIQ (sent by c09play just before)
		return fmt.Sprintf("<iq from='example.org' id='req%d' type='result'><query xmlns='jabber:iq:version'><name>x</name></query></iq>", n)
	case "r":
		return "<r xmlns='urn:xmpp:sm:3'/>"
	case "a":
		return "<a xmlns='urn:xmpp:sm:3' h='1'/>"
	case "features":
		return "<stream:features/>"
	}
	return ""
}

func c09isStanza(sym string) bool {
	return sym == "message" || sym == "presence" || sym == "iq" || sym == "iq-resp"
}

// c09play sends seq on connection sc, checking every answer to <r/>; it returns the
// number of stanzas sent.
func c09play(cl *Client, sc *srvConn, seq []string, base int, hist string) int {
	count := base
	for i, sym := range seq {
		if sym == "iq-resp" {
			ctx, cancel := vrt.WithTimeout(vrt.Background(), time.Hour)
			defer cancel()
			iq := &stanza.IQ{Attrs: stanza.Attrs{Type: "get", Id: fmt.Sprintf("req%d", i), To: "example.org"}, Payload: &stanza.Version{}}
			if _, err := cl.SendIQ(ctx, iq); err != nil {
				vrt.Fail("C09|harness|sendiq", "%v", err)
			}
			vrt.WaitIdle()
		}
		sc.drainNew()
		sc.send(c09wire(sym, i))
		vrt.WaitIdle()
		if c09isStanza(sym) {
			count++
		}
		us := sc.drainNew()
		if sym == "r" {
			var hs []string
			for _, u := range us {
				if u.kind == "element" && u.name == "a" {
					hs = append(hs, attr(u.raw, "h"))
				}
			}
			vrt.Log("r#%d answered %v", i, hs)
			pre := strings.Join(seq[:i], ",")
			nonStanza := "only-stanzas"
			for _, p := range seq[:i] {
				if !c09isStanza(p) {
					nonStanza = "after-" + p
					break
				}
			}
			if len(hs) != 1 {
				vrt.Fail("C09|ack-request-not-answered-once", "%s: after [%s] the <r/> got %d answers %v (written: %s)", hist, pre, len(hs), hs, unitNames(us))
				continue
			}
			h, err := strconv.Atoi(hs[0])
			if err != nil || h != count {
				vrt.Fail("C09|answer-count-wrong|"+nonStanza, "%s: after [%s] the client answered h=%s, stanzas received %d", hist, pre, hs[0], count)
			}
		}
	}
	return count
}

func c09body(first []string, maxLen int, withResume bool, variant string) func() {
	return func() {
		seq := append([]string{}, first...)
		for len(seq) < maxLen {
			k := vrt.ChooseFree("next", len(c09alphabet)+1)
			if k == 0 {
				break
			}
			seq = append(seq, c09alphabet[k-1])
		}
		var seq2 []string
		if withResume {
			for len(seq2) < 2 {
				k := vrt.ChooseFree("next2", len(c09alphabet)+1)
				if k == 0 {
					break
				}
				seq2 = append(seq2, c09alphabet[k-1])
			}
		}
		hist := fmt.Sprintf("history %v resume=%v then %v variant=%s", seq, withResume, seq2, variant)
		o := sessOpts{sm: true, smResume: true}
		switch variant {
		case "refused":
			o.resumeAns = "failed" // the resumption is refused: the connection carries a NEW session
		case "no-id":
			o.enableAns = "enabled-no-resume" // stream management without resumption: <enabled/> has no id
		case "unmanaged-first":
			// the first connection is not stream-managed (the server does not offer it): what is received there
			// belongs to no stream-managed session, the one enabled on the second connection starts at zero
			o.serverCfg = func(k int, c *negCfg) { c.sm = k > 0 }
		}
		s := newSess(o)
		if s.cl == nil {
			return
		}
		resumedFromHandler := false
		var resumeErr error
		if variant == "handler-resume" {
			// the reconnection is made from inside the Disconnected event handler, as StreamManager does
			s.cl.SetHandler(func(e Event) error {
				s.events = append(s.events, e)
				if e.State.state == StateDisconnected && !resumedFromHandler {
					resumedFromHandler = true
					resumeErr = s.cl.Resume()
				}
				return nil
			})
		}
		if err := s.cl.Connect(); err != nil {
			vrt.Fail("C09|harness|connect", "%v", err)
			return
		}
		vrt.WaitIdle()
		sc := s.conn(0)
		total := c09play(s.cl, sc, seq, 0, hist)
		if !withResume {
			return
		}
		if variant == "cut-inside" {
			// the connection is lost inside a stanza (its start tag and part of its content arrived): that stanza was
			// not received, it does not count
			sc.send("<message from='peer@example.org' id='partial' type='chat'><body>cut he")
			vrt.WaitIdle()
		}
		sc.close()
		vrt.WaitIdle()
		if variant == "handler-resume" {
			if !resumedFromHandler || resumeErr != nil {
				vrt.Fail("C09|harness|reconnect", "%s: Resume from the Disconnected handler: called=%v err=%v", hist, resumedFromHandler, resumeErr)
				return
			}
		} else if err := s.cl.Connect(); err != nil {
			vrt.Log("reconnect failed: %v", err)
			vrt.Fail("C09|harness|reconnect", "%s: second Connect failed: %v", hist, err)
			return
		}
		vrt.WaitIdle()
		if variant == "unmanaged-first" {
			if len(s.recs) < 2 || !s.recs[1].EnableOK || len(s.recs[1].ResumeSeen) != 0 {
				vrt.Fail("C09|harness|fresh-session", "%s: the second connection did not enable stream management afresh", hist)
				return
			}
			c09play(s.cl, s.conn(1), append(append([]string{}, seq2...), "r"), 0, hist+" (first stream-managed session, after an unmanaged connection)")
			return
		}
		if variant == "refused" {
			// a fresh stream-managed session: its count starts at zero
			if len(s.recs) < 2 || !s.recs[1].EnableOK {
				vrt.Fail("C09|harness|fresh-session", "%s: no fresh stream-managed session after the refusal", hist)
				return
			}
			c09play(s.cl, s.conn(1), append(append([]string{}, seq2...), "r"), 0, hist+" (new session after a refused resumption)")
			return
		}
		if len(s.recs) < 2 || len(s.recs[1].ResumeSeen) != 1 {
			vrt.Fail("C09|no-resume-request", "%s: second connection saw resume requests %v", hist, s.recs[len(s.recs)-1].ResumeSeen)
			return
		}
		h := attr(s.recs[1].ResumeSeen[0], "h")
		vrt.Log("resume h=%s", h)
		if hv, err := strconv.Atoi(h); err != nil || hv != total {
			nonStanza := "only-stanzas"
			for _, p := range seq {
				if !c09isStanza(p) {
					nonStanza = "after-" + p
					break
				}
			}
			vrt.Fail("C09|resume-count-wrong|"+nonStanza, "%s: <resume h=%q>, stanzas received on the session %d", hist, h, total)
		}
		c09play(s.cl, s.conn(1), append(append([]string{}, seq2...), "r"), total, hist+" (after resumption)")
	}
}

// c09burst sends a whole history in ONE write (everything arrives in the same read, <r/>
// directly behind stanzas) and compares the ordered list of answers with the reference.
func c09burst(first []string, maxLen int, dropResume bool) func() {
	return func() {
		seq := append([]string{}, first...)
		// (an answer to a pending SendIQ needs a request in flight: covered by the step-wise histories)
		alpha := []string{"message", "presence", "iq", "r", "a", "features"}
		for len(seq) < maxLen {
			k := vrt.ChooseFree("next", len(alpha)+1)
			if k == 0 {
				break
			}
			seq = append(seq, alpha[k-1])
		}
		seq = append(seq, "r")
		s := newSess(sessOpts{sm: true, smResume: true})
		if s.cl == nil {
			return
		}
		if err := s.cl.Connect(); err != nil {
			vrt.Fail("C09|harness|connect", "%v", err)
			return
		}
		vrt.WaitIdle()
		sc := s.conn(0)
		sc.drainNew()
		var sb strings.Builder
		var want []string
		count := 0
		for i, sym := range seq {
			if sym == "iq-resp" {
				sym = "iq"
			}
			sb.WriteString(c09wire(sym, i))
			if c09isStanza(sym) {
				count++
			}
			if sym == "r" {
				want = append(want, strconv.Itoa(count))
			}
		}
		sc.send(sb.String())
		if dropResume {
			// the connection is lost right behind the burst (the client has not read anything yet), then the
			// session is resumed: everything that was completely received counts
			sc.close()
			vrt.WaitIdle()
			if err := s.cl.Connect(); err != nil {
				vrt.Fail("C09|harness|reconnect", "inbound %v in one write then loss: second Connect failed: %v", seq, err)
				return
			}
			vrt.WaitIdle()
			if len(s.recs) < 2 || len(s.recs[1].ResumeSeen) != 1 {
				vrt.Fail("C09|no-resume-request", "inbound %v in one write then loss: no resume request on the second connection", seq)
				return
			}
			if h := attr(s.recs[1].ResumeSeen[0], "h"); h != strconv.Itoa(count) {
				vrt.Fail("C09|resume-count-wrong|burst-then-loss", "inbound %v delivered in one write, connection lost right behind it: <resume h=%q>, stanzas completely received %d", seq, h, count)
			}
			return
		}
		vrt.WaitIdle()
		var got []string
		for _, u := range sc.drainNew() {
			if u.kind == "element" && u.name == "a" {
				got = append(got, attr(u.raw, "h"))
			}
		}
		vrt.Log("burst %v -> %v", seq, got)
		// answers may be written by concurrent goroutines only in the order the requests were read
		if strings.Join(got, ",") != strings.Join(want, ",") {
			vrt.Fail("C09|burst-answers-wrong", "inbound %v delivered in one write: answers h=%v, reference %v", seq, got, want)
		}
	}
}

func c09verdict(e *vrt.Exec) {
	if e.Panic != nil {
		vrt.Fail("C09|panic", "%s %s", e.Panic.Value, trimStack(e.Panic.Stack))
	} else if e.Deadlock {
		vrt.Fail("C09|hang", "blocked: %s", e.BlockedSummary())
	}
}

func TestVerifC09(t *testing.T) {
	maxLen := 4
	if hx.Thorough() {
		maxLen = 6
	}
	var scs []hx.Scenario
	for _, a := range c09alphabet {
		for _, b := range c09alphabet {
			for _, res := range []bool{false, true} {
				ml := maxLen
				if res {
					ml = maxLen - 1
				}
				scs = append(scs, hx.Scenario{Name: fmt.Sprintf("first=%s,%s/resume=%v", a, b, res), Opt: vrt.Options{Bound: 0},
					Body: c09body([]string{a, b}, ml, res, ""), Verdict: c09verdict})
			}
		}
	}
	for _, a := range c09alphabet {
		scs = append(scs, hx.Scenario{Name: "refused-resumption/first=" + a, Opt: vrt.Options{Bound: 0}, Body: c09body([]string{a}, maxLen-1, true, "refused"), Verdict: c09verdict})
		scs = append(scs, hx.Scenario{Name: "cut-inside-a-stanza/first=" + a, Opt: vrt.Options{Bound: 0}, Body: c09body([]string{a}, maxLen-1, true, "cut-inside"), Verdict: c09verdict})
		scs = append(scs, hx.Scenario{Name: "resume-from-handler/first=" + a, Opt: vrt.Options{Bound: 0}, Body: c09body([]string{a}, maxLen-1, true, "handler-resume"), Verdict: c09verdict})
		if c09isStanza(a) && a != "iq-resp" {
			scs = append(scs, hx.Scenario{Name: "unmanaged-first/first=" + a, Opt: vrt.Options{Bound: 0}, Body: c09body([]string{a}, maxLen-1, true, "unmanaged-first"), Verdict: c09verdict})
		}
		scs = append(scs, hx.Scenario{Name: "sm-without-id/first=" + a, Opt: vrt.Options{Bound: 0}, Body: c09body([]string{a}, maxLen-1, false, "no-id"), Verdict: c09verdict})
	}
	for _, a := range c09alphabet {
		if a == "iq-resp" {
			continue
		}
		scs = append(scs, hx.Scenario{Name: "burst/first=" + a, Opt: vrt.Options{Bound: 0}, Body: c09burst([]string{a}, maxLen, false), Verdict: c09verdict})
		scs = append(scs, hx.Scenario{Name: "burst-then-loss/first=" + a, Opt: vrt.Options{Bound: thoroughBound(1)}, Body: c09burst([]string{a}, maxLen-1, true), Verdict: c09verdict})
	}
	if hx.Thorough() {
		for _, a := range c09alphabet {
			scs = append(scs, hx.Scenario{Name: "dev1/first=" + a, Opt: vrt.Options{Bound: 1, TouchOn: []string{"Inbound"}}, Body: c09body([]string{a}, 3, true, ""), Verdict: c09verdict})
		}
	}
	scs = append(scs, hx.Scenario{Name: "short", Opt: vrt.Options{Bound: 0}, Body: func() {
		k := vrt.ChooseFree("one", len(c09alphabet)+1)
		var seq []string
		if k > 0 {
			seq = []string{c09alphabet[k-1]}
		}
		c09body(append(seq, "r"), len(seq)+1, vrt.ChooseFree("res", 2) == 1, "")()
	}, Verdict: c09verdict})
	if hx.Main("C09", scs) == 2 {
		t.Fatal("internal error")
	}
}
