//go:build verif

package xmpp

import (
	"errors"
	"fmt"
	"net"
	"strings"
	"testing"

	"verif/hx"
)

// C20: address normalisation and transport choice.

func c20hosts() (dns, v4, v6 []string) {
	labels := []string{"a", "a-b", "0", "123", "xn--p1ai", "Example"}
	for _, l1 := range labels {
		dns = append(dns, l1, l1+".")
		for _, l2 := range labels {
			dns = append(dns, l1+"."+l2, l1+"."+l2+".")
			for _, l3 := range labels[:3] {
				dns = append(dns, l1+"."+l2+"."+l3)
			}
		}
	}
	v4 = []string{"0.0.0.0", "127.0.0.1", "255.255.255.255", "1.2.3.4", "10.0.0.1"}
	// IPv6: every placement of "::" in 1..7 explicit groups, plus the full form
	groups := []string{"1", "ab", "ABCD", "0", "ffff", "7", "daad", "e065"}
	seen := map[string]bool{}
	add := func(s string) {
		if !seen[s] {
			seen[s] = true
			v6 = append(v6, s)
		}
	}
	for n := 0; n <= 7; n++ {
		for split := 0; split <= n; split++ {
			left := strings.Join(groups[:split], ":")
			right := strings.Join(groups[split:n], ":")
			add(left + "::" + right)
		}
	}
	add(strings.Join(groups, ":"))
	add("1ca3:6c07:ee3a:89ca:e065:9a70:71d:daad")
	add("::ffff:1.2.3.4")
	add("::1.2.3.4")
	add("64:ff9b::192.0.2.33")
	add("fe80::1%eth0")
	add("fe80::1%1")
	add("FE80::ABCD")
	return
}

func c20class(host string, bracket bool, port string) string {
	k := "dns"
	if strings.Contains(host, ":") {
		k = "ipv6-bare"
		if bracket {
			k = "ipv6-bracketed"
		}
	} else if net.ParseIP(host) != nil {
		k = "ipv4"
	}
	if port == "" {
		return k + "|no-port"
	}
	return k + "|port"
}

func c20one(c *hx.Ctx, host string, bracket bool, port string, component bool, viaNewClient bool) {
	in := host
	if bracket {
		in = "[" + host + "]"
	}
	if port != "" {
		in += ":" + port
	}
	var tr Transport
	if viaNewClient {
		cfg := Config{TransportConfiguration: TransportConfiguration{Address: in}, Jid: "user@example.org/r", Credential: Password("x")}
		cl, err := NewClient(&cfg, NewRouter(), func(error) {})
		if err != nil || cl == nil {
			c.Eval("err")
			c.Fail("C20|newclient-failed|"+c20class(host, bracket, port), in, "NewClient with address %q failed: %v", in, err)
			return
		}
		tr = cl.transport
	} else if component {
		var err error
		tr, err = NewComponentTransport(TransportConfiguration{Address: in, Domain: "d"})
		if err != nil {
			c.Eval("err")
			c.Fail("C20|component-refuses-plain|"+c20class(host, bracket, port), in, "NewComponentTransport(%q) failed: %v", in, err)
			return
		}
	} else {
		tr = NewClientTransport(TransportConfiguration{Address: in, Domain: "d"})
	}
	xt, ok := tr.(*XMPPTransport)
	if !ok {
		c.Eval("wrongtype")
		c.Fail("C20|wrong-transport|"+c20class(host, bracket, port), in, "address %q gave transport %T, want *XMPPTransport", in, tr)
		return
	}
	got := xt.Config.Address
	c.Eval(got)
	h, p, err := net.SplitHostPort(got)
	if err != nil {
		c.Fail("C20|not-dialable|"+c20class(host, bracket, port), in, "address %q normalised to %q: SplitHostPort: %v", in, got, err)
		return
	}
	wantPort := port
	if wantPort == "" {
		wantPort = "5222"
	}
	if h != host {
		c.Fail("C20|host-changed|"+c20class(host, bracket, port), in, "address %q normalised to %q: host %q, want %q", in, got, h, host)
	}
	if p != wantPort {
		c.Fail("C20|port-wrong|"+c20class(host, bracket, port), in, "address %q normalised to %q: port %q, want %q", in, got, p, wantPort)
	}
}

func TestVerifC20(t *testing.T) {
	dns, v4, v6 := c20hosts()
	ports := []string{"", "1", "80", "5222", "5223", "65535"}
	var scs []hx.Scenario
	for _, comp := range []bool{false, true} {
		comp := comp
		who := "client"
		if comp {
			who = "component"
		}
		scs = append(scs, hx.Scenario{Name: who + "/dns+ipv4", Run: func(c *hx.Ctx) {
			for _, h := range append(append([]string{}, dns...), v4...) {
				for _, p := range ports {
					c20one(c, h, false, p, comp, false)
					if !comp {
						c20one(c, h, false, p, false, true)
					}
				}
			}
			c.Sample(map[string]string{"in": "a-b.xn--p1ai.:5223", "who": who})
		}})
		scs = append(scs, hx.Scenario{Name: who + "/ipv6", Run: func(c *hx.Ctx) {
			for _, h := range v6 {
				for _, p := range ports {
					c20one(c, h, true, p, comp, false)
					if !comp {
						c20one(c, h, true, p, false, true)
					}
				}
				// bare IPv6 directly followed by :port is ambiguous and excluded by the property
				c20one(c, h, false, "", comp, false)
				if !comp {
					c20one(c, h, false, "", false, true)
				}
			}
			c.Sample(map[string]string{"in": "[::ffff:1.2.3.4]:5223 and 1:ab::ABCD", "who": who})
		}})
	}
	scs = append(scs, hx.Scenario{Name: "schemes", Run: func(c *hx.Ctx) {
		type sc struct {
			addr string
			ws   bool
		}
		cases := []sc{
			{"ws:", true}, {"wss:", true}, {"ws://h/p", true}, {"wss://h:443/p", true}, {"ws://[::1]:80/x", true}, {"wss://a.b", true}, {"ws://localhost:5280/xmpp-websocket", true}, {"ws://[::1]/x", true}, {"wss://h:1/a:b", true},
			{"http://h", false}, {"xmpp:h", false}, {"tcp://h:1", false}, {"h", false}, {"ws", false}, {"wss", false}, {"w:s", false},
			{"WS://h", false}, {"xws://h", false}, {"h.ws:5222", false}, {"wsx.example:5222", false}, {"ws.example.org", false},
		}
		for _, k := range cases {
			tr := NewClientTransport(TransportConfiguration{Address: k.addr, Domain: "d"})
			_, isWS := tr.(*WebsocketTransport)
			_, isX := tr.(*XMPPTransport)
			c.Eval(fmt.Sprintf("client %q %T", k.addr, tr))
			if k.ws && !isWS {
				c.Fail("C20|ws-scheme-not-websocket", k.addr, "NewClientTransport(%q) = %T, want *WebsocketTransport", k.addr, tr)
			}
			if !k.ws && !isX {
				c.Fail("C20|non-ws-not-xmpp", k.addr, "NewClientTransport(%q) = %T, want *XMPPTransport", k.addr, tr)
			}
			if isWS && tr.(*WebsocketTransport).Config.Address != k.addr {
				c.Fail("C20|ws-address-changed", k.addr, "websocket address %q became %q", k.addr, tr.(*WebsocketTransport).Config.Address)
			}
			// the same through NewClient, which is how applications get a transport
			{
				cfg := Config{TransportConfiguration: TransportConfiguration{Address: k.addr}, Jid: "user@example.org/r", Credential: Password("x")}
				cl, err := NewClient(&cfg, NewRouter(), func(error) {})
				if err != nil || cl == nil {
					c.Fail("C20|newclient-failed|scheme", k.addr, "NewClient with address %q failed: %v", k.addr, err)
				} else {
					wt, isWS2 := cl.transport.(*WebsocketTransport)
					c.Eval(fmt.Sprintf("newclient %q %T", k.addr, cl.transport))
					if k.ws && !isWS2 {
						c.Fail("C20|ws-scheme-not-websocket|via-newclient", k.addr, "NewClient with address %q uses %T, want *WebsocketTransport", k.addr, cl.transport)
					}
					if !k.ws && isWS2 {
						c.Fail("C20|non-ws-not-xmpp|via-newclient", k.addr, "NewClient with address %q uses %T", k.addr, cl.transport)
					}
					if isWS2 && wt.Config.Address != k.addr {
						c.Fail("C20|ws-address-changed|via-newclient", k.addr, "websocket address %q became %q", k.addr, wt.Config.Address)
					}
				}
			}
			ct, err := NewComponentTransport(TransportConfiguration{Address: k.addr, Domain: "d"})
			c.Eval(fmt.Sprintf("component %q %T %v", k.addr, ct, err))
			if k.ws {
				if err == nil || !errors.Is(err, ErrTransportProtocolNotSupported) || ct != nil {
					c.Fail("C20|component-accepts-ws", k.addr, "NewComponentTransport(%q) = %T, %v; want ErrTransportProtocolNotSupported", k.addr, ct, err)
				}
				// the same through the constructor, which is how applications get a component: Connect must refuse
				// the address (nothing is dialled for a refused address)
				comp, nerr := NewComponent(ComponentOptions{TransportConfiguration: TransportConfiguration{Address: k.addr, Domain: "d"},
					Domain: "d", Secret: "s", Name: "n", Category: "gateway", Type: "service"}, NewRouter(), func(error) {})
				if nerr != nil {
					if !errors.Is(nerr, ErrTransportProtocolNotSupported) {
						c.Fail("C20|component-accepts-ws|via-newcomponent", k.addr, "NewComponent with address %q failed with %v", k.addr, nerr)
					}
				} else if cerr := comp.Connect(); cerr == nil || !errors.Is(cerr, ErrTransportProtocolNotSupported) {
					c.Fail("C20|component-accepts-ws|via-newcomponent", k.addr, "a component built by NewComponent with address %q: Connect returned %v, want ErrTransportProtocolNotSupported", k.addr, cerr)
				}
			} else if err != nil {
				c.Fail("C20|component-refuses-plain|scheme", k.addr, "NewComponentTransport(%q) failed: %v", k.addr, err)
			} else if _, ok := ct.(*XMPPTransport); !ok {
				c.Fail("C20|non-ws-not-xmpp|component", k.addr, "NewComponentTransport(%q) = %T", k.addr, ct)
			}
		}
		c.Sample("wss://h:443/p")
	}})
	if hx.Main("C20", scs) == 2 {
		t.Fatal("internal error")
	}
}
