//go:build verif

package xmpp

import (
	"context"
	"crypto/tls"
	"encoding/xml"
	"fmt"
	"net"
	"net/http"
	"os"
	"strings"
	"sync"
	"time"

	"gosrc.io/xmpp/stanza"
	"nhooyr.io/websocket"
	"verif/hx"
)

// WebSocket legs of C04, C08 and C14: where an option meets the WebSocket transport. Like the WebSocket leg of C05
// (ws.go) these run free, over a loopback socket, against a scripted RFC 7395 server: the transport's third-party
// connection object cannot be put under the controlled scheduler. What is enumerated is configurations and inputs;
// there is no timing oracle (the only clocks are generous give-up deadlines).

type wsPeer struct {
	url    string
	mu     sync.Mutex
	frames []string // text frames received from the client
	l      *wsListener
	srv    *http.Server
	hold   chan struct{}
	once   sync.Once
}

func (p *wsPeer) got() []string {
	p.mu.Lock()
	defer p.mu.Unlock()
	return append([]string{}, p.frames...)
}

// cut closes the TCP connections under the WebSocket sessions, without a WebSocket close.
func (p *wsPeer) cut() {
	p.l.mu.Lock()
	for _, nc := range p.l.conns {
		nc.Close()
	}
	p.l.mu.Unlock()
}

func (p *wsPeer) stop() {
	p.once.Do(func() { close(p.hold) })
	p.srv.Close()
	p.l.Close()
}

// newWsPeer starts a server that negotiates up to `upto` ("features": open + features offering PLAIN and X-OAUTH2,
// then records whatever comes; "session": the whole negotiation, then records) and keeps the session open.
func newWsPeer(upto string) (*wsPeer, error) {
	l0, err := net.Listen("tcp", "127.0.0.1:0")
	if err != nil {
		return nil, err
	}
	p := &wsPeer{l: &wsListener{Listener: l0}, hold: make(chan struct{})}
	p.url = "ws://" + l0.Addr().String() + "/xmpp"
	p.srv = &http.Server{Handler: http.HandlerFunc(func(w http.ResponseWriter, r *http.Request) {
		ws, err := websocket.Accept(w, r, &websocket.AcceptOptions{Subprotocols: []string{"xmpp"}})
		if err != nil {
			return
		}
		ws.SetReadLimit(1 << 22)
		ctx, cancel := context.WithTimeout(context.Background(), 120*time.Second)
		defer cancel()
		read := func() (string, bool) {
			_, data, err := ws.Read(ctx)
			if err != nil {
				return "", false
			}
			p.mu.Lock()
			p.frames = append(p.frames, string(data))
			p.mu.Unlock()
			return string(data), true
		}
		write := func(s string) { _ = ws.Write(ctx, websocket.MessageText, []byte(s)) }
		open := fmt.Sprintf(`<open xmlns="%s" from="localhost" id="ws-stream" version="1.0"/>`, wsFraming)
		if _, ok := read(); !ok {
			return
		}
		write(open)
		write(`<stream:features xmlns:stream="http://etherx.jabber.org/streams"><mechanisms xmlns="urn:ietf:params:xml:ns:xmpp-sasl"><mechanism>X-OAUTH2</mechanism><mechanism>PLAIN</mechanism></mechanisms></stream:features>`)
		if upto == "session" {
			if s, ok := read(); !ok || !strings.Contains(s, "<auth") {
				return
			}
			write(`<success xmlns="urn:ietf:params:xml:ns:xmpp-sasl"/>`)
			if _, ok := read(); !ok {
				return
			}
			write(open)
			write(`<stream:features xmlns:stream="http://etherx.jabber.org/streams"><bind xmlns="urn:ietf:params:xml:ns:xmpp-bind"/></stream:features>`)
			b, ok := read()
			if !ok {
				return
			}
			write(fmt.Sprintf(`<iq xmlns="jabber:client" type="result" id="%s"><bind xmlns="urn:ietf:params:xml:ns:xmpp-bind"><jid>user@localhost/ws</jid></bind></iq>`, attr(b, "id")))
		}
		for {
			if _, ok := read(); !ok {
				break
			}
		}
		<-p.hold
	})}
	go p.srv.Serve(p.l)
	return p, nil
}

// wsQuietDisconnect ends a client whose verdict is already in: what its Disconnect does is not this leg's business.
func wsQuietDisconnect(cl *Client) {
	defer func() { _ = recover() }()
	_ = cl.Disconnect()
}

// wsWait polls until cond holds or the (generous) deadline passes.
func wsWait(d time.Duration, cond func() bool) bool {
	deadline := time.Now().Add(d)
	for time.Now().Before(deadline) {
		if cond() {
			return true
		}
		time.Sleep(5 * time.Millisecond)
	}
	return cond()
}

// --- C04: Insecure off and a ws: address: the transport has no STARTTLS and is not secure - nothing but the stream
// opening may be written.
func c04wsScenarios() []hx.Scenario {
	var scs []hx.Scenario
	for _, insecure := range []bool{false, true} {
		for _, skipVerify := range []bool{false, true} {
			insecure, skipVerify := insecure, skipVerify
			scs = append(scs, hx.Scenario{Name: fmt.Sprintf("ws/insecure=%v/skip-verify=%v", insecure, skipVerify), Run: func(c *hx.Ctx) {
				p, err := newWsPeer("session")
				if err != nil {
					c.Fail("C04|harness|ws-listen", "", "%v", err)
					return
				}
				defer p.stop()
				cfg := Config{TransportConfiguration: TransportConfiguration{Address: p.url, Domain: "localhost"}, Jid: "user@localhost", Credential: Password("secret"), Insecure: insecure}
				if skipVerify {
					cfg.TLSConfig = &tls.Config{InsecureSkipVerify: true}
				}
				cl, err := NewClient(&cfg, NewRouter(), func(error) {})
				if err != nil {
					c.Fail("C04|harness|ws-newclient", "", "%v", err)
					return
				}
				cerr := cl.Connect()
				if cerr == nil {
					_ = cl.SendRaw("<message to='a@localhost'><body>hello</body></message>")
				}
				// whatever the client was going to write is written by now, or within this (there is nothing to wait for
				// when it wrote nothing)
				wsWait(300*time.Millisecond, func() bool { return false })
				frames := p.got()
				c.Step(1)
				c.Eval(fmt.Sprintf("ws insecure=%v skip=%v err=%v frames=%d", insecure, skipVerify, cerr != nil, len(frames)))
				in := fmt.Sprintf("ws: address, Insecure=%v, InsecureSkipVerify=%v", insecure, skipVerify)
				sensitive := ""
				for _, f := range frames {
					for _, kw := range c04sensitive {
						if strings.Contains(f, kw) && sensitive == "" {
							sensitive = kw
						}
					}
				}
				if !insecure && sensitive != "" {
					c.Fail("C04|cleartext-"+sensitive[1:]+"|websocket", in, "%s: %q written on a WebSocket connection that is not protected by TLS although insecure connections were not allowed (frames %q)", in, sensitive, frames)
				}
				if !insecure && cerr == nil {
					c.Fail("C04|connected-in-clear|websocket", in, "%s: Connect succeeded", in)
				}
				if insecure && (cerr != nil || sensitive == "") {
					c.Fail("C04|harness|ws-insecure-did-not-connect", in, "%s: err=%v frames=%q", in, cerr, frames)
				}
				if cerr == nil {
					wsQuietDisconnect(cl)
				}
			}})
		}
	}
	return scs
}

// --- C08: over the WebSocket transport a stanza is one message, whole; a failed write is reported.
func c08wsScenarios() []hx.Scenario {
	var scs []hx.Scenario
	for _, sm := range []bool{false, true} {
		for _, logger := range []bool{false, true} {
			sm, logger := sm, logger
			scs = append(scs, hx.Scenario{Name: fmt.Sprintf("ws/sm-option=%v/logger=%v", sm, logger), Run: func(c *hx.Ctx) {
				for _, ending := range []string{"cut", "disconnect"} {
					c08wsOne(c, sm, logger, ending)
				}
			}})
		}
	}
	return scs
}

func c08wsOne(c *hx.Ctx, sm, logger bool, ending string) {
	{
		{
			{
				p, err := newWsPeer("session")
				if err != nil {
					c.Fail("C08|harness|ws-listen", "", "%v", err)
					return
				}
				defer p.stop()
				cfg := Config{TransportConfiguration: TransportConfiguration{Address: p.url, Domain: "localhost"}, Jid: "user@localhost", Credential: Password("secret"), Insecure: true, StreamManagementEnable: sm}
				if logger {
					f, err := os.CreateTemp("", "verif-c08ws-*.log")
					if err != nil {
						c.Fail("C08|harness|tempfile", "", "%v", err)
						return
					}
					defer func() { f.Close(); os.Remove(f.Name()) }()
					cfg.StreamLogger = f
				}
				cl, err := NewClient(&cfg, NewRouter(), func(error) {})
				if err != nil {
					c.Fail("C08|harness|ws-newclient", "", "%v", err)
					return
				}
				if err := cl.Connect(); err != nil {
					c.Fail("C08|harness|ws-connect", "", "%v", err)
					return
				}
				in := fmt.Sprintf("WebSocket transport, StreamManagementEnable=%v, traffic log=%v, ending=%s", sm, logger, ending)
				wsWait(20*time.Second, func() bool { return len(p.got()) >= 4 }) // open, auth, open, bind (+ presence)
				base := len(p.got())
				var want []string
				send := func(what string, err error, wire string) {
					c.Step(1)
					if err != nil {
						c.Fail("C08|send-error|websocket", in, "%s: %s on an established session failed: %v", in, what, err)
						return
					}
					want = append(want, wire)
				}
				for _, size := range []int{1, 4000, 4096, 4097, 9000, 40000} {
					m := stanza.Message{Attrs: stanza.Attrs{To: "peer@localhost", Id: fmt.Sprintf("m%d", size), Type: "chat"}, Body: strings.Repeat("b", size) + " <&> end"}
					b, _ := xml.Marshal(m)
					send(fmt.Sprintf("Send of a %d-byte message", len(b)), cl.Send(m), string(b))
				}
				raw := "<presence id='r1'><status>" + strings.Repeat("s", 5000) + "</status></presence>"
				send("SendRaw", cl.SendRaw(raw), raw)
				ctx, cancel := context.WithTimeout(context.Background(), 30*time.Second)
				iq := &stanza.IQ{Attrs: stanza.Attrs{Type: "get", Id: "q1", To: "localhost"}, Payload: &stanza.DiscoInfo{}}
				b, _ := xml.Marshal(iq)
				_, ierr := cl.SendIQ(ctx, iq)
				cancel()
				send("SendIQ", ierr, string(b))
				wsWait(20*time.Second, func() bool { return len(p.got()) >= base+len(want)+1 })
				wsWait(200*time.Millisecond, func() bool { return false })
				var after []string
				for _, f := range p.got()[base:] {
					if strings.TrimSpace(f) != "" && !strings.HasPrefix(f, "<presence/>") && f != "<presence/>" && !strings.Contains(f, "urn:xmpp:sm:3") {
						after = append(after, f)
					}
				}
				c.Eval(fmt.Sprintf("ws sm=%v logger=%v frames=%d", sm, logger, len(after)))
				if strings.Join(after, "\x00") != strings.Join(want, "\x00") {
					short := func(l []string) []string {
						var o []string
						for _, s := range l {
							if len(s) > 60 {
								s = fmt.Sprintf("%s...(%d bytes)", s[:60], len(s))
							}
							o = append(o, s)
						}
						return o
					}
					c.Fail("C08|stream-not-a-sequence-of-whole-stanzas|websocket", in, "%s: the server received the messages %q, the calls made were %q (each stanza is one WebSocket message, RFC 7395 3.3)", in, short(after), short(want))
				}
				if ending == "disconnect" {
					// the application ends the session itself and goes on sending: every call has to say that nothing went out
					wsQuietDisconnect(cl)
					m := stanza.Message{Attrs: stanza.Attrs{To: "peer@localhost", Id: "late"}, Body: "late"}
					ctx, cancel := context.WithTimeout(context.Background(), 5*time.Second)
					_, ierr := cl.SendIQ(ctx, &stanza.IQ{Attrs: stanza.Attrs{Type: "get", Id: "q2", To: "localhost"}, Payload: &stanza.DiscoInfo{}})
					cancel()
					for what, err := range map[string]error{"SendRaw": cl.SendRaw("<message to='a@localhost'><body>after the end</body></message>"), "Send": cl.Send(m), "SendIQ": ierr} {
						c.Step(1)
						if err == nil {
							c.Fail("C08|failed-write-not-reported|websocket|after-disconnect", in, "%s: %s after Disconnect returned nil: nothing can have been written", in, what)
						}
					}
					return
				}
				// the connection goes away under the client: from some point on every send has to fail
				p.cut()
				failed := wsWait(30*time.Second, func() bool {
					return cl.SendRaw("<message to='a@localhost'><body>into the void</body></message>") != nil
				})
				c.Step(1)
				if !failed {
					c.Fail("C08|failed-write-not-reported|websocket", in, "%s: the connection was closed under the client and 30 s of SendRaw calls all returned nil", in)
				}
				m := stanza.Message{Attrs: stanza.Attrs{To: "peer@localhost", Id: "late"}, Body: "late"}
				if failed && cl.Send(m) == nil {
					c.Fail("C08|failed-write-not-reported|websocket", in, "%s: Send returned nil on the dead connection (SendRaw had already failed)", in)
				}
				wsQuietDisconnect(cl)
			}
		}
	}
}

// --- C14: the authentication element over the WebSocket transport, with and without the traffic log.
func c14wsScenarios() []hx.Scenario {
	var scs []hx.Scenario
	for _, kind := range []string{"password", "oauth"} {
		for _, logger := range []bool{false, true} {
			kind, logger := kind, logger
			scs = append(scs, hx.Scenario{Name: fmt.Sprintf("ws/%s/logger=%v", kind, logger), Run: func(c *hx.Ctx) {
				c14currentKind = kind
				for _, us := range [][2]string{{"user", "secret"}, {"éß", "a\x00b<&>\"'"}, {"u", strings.Repeat("t", 1500)}} {
					p, err := newWsPeer("features")
					if err != nil {
						c.Fail("C14|harness|ws-listen", "", "%v", err)
						return
					}
					cred := Password(us[1])
					if kind == "oauth" {
						cred = OAuthToken(us[1])
					}
					cfg := Config{TransportConfiguration: TransportConfiguration{Address: p.url, Domain: "localhost"}, Jid: us[0] + "@localhost", Credential: cred, Insecure: true}
					var f *os.File
					if logger {
						f, err = os.CreateTemp("", "verif-c14ws-*.log")
						if err != nil {
							c.Fail("C14|harness|tempfile", "", "%v", err)
							p.stop()
							return
						}
						cfg.StreamLogger = f
					}
					cl, err := NewClient(&cfg, NewRouter(), func(error) {})
					if err != nil {
						c.Fail("C14|harness|ws-newclient", "", "%v", err)
						p.stop()
						return
					}
					done := make(chan struct{})
					go func() { _ = cl.Connect(); close(done) }() // waits for an answer to <auth/> that never comes
					wsWait(20*time.Second, func() bool { return len(p.got()) >= 2 })
					frames := p.got()
					p.cut()
					p.stop()
					select {
					case <-done:
					case <-time.After(time.Second): // Connect may go on waiting for the answer: nothing here depends on it
					}
					if f != nil {
						f.Close()
						os.Remove(f.Name())
					}
					c.Step(1)
					in := fmt.Sprintf("WebSocket transport, traffic log=%v, %s, user=%q, secret of %d bytes", logger, kind, us[0], len(us[1]))
					written := ""
					if len(frames) >= 2 {
						written = frames[1]
					}
					c.Eval(in + "=>" + written)
					if len(frames) < 2 {
						c.Fail("C14|ws|no-auth-frame", in, "%s: the server received %q", in, frames)
						continue
					}
					if k, d := c14checkAuth(written, []string{"X-OAUTH2", "PLAIN"}, cred, us[0], us[1]); k != "" {
						c.Fail("C14|ws|"+k, in, "%s: %s", in, d)
					}
				}
			}})
		}
	}
	return scs
}
