//go:build verif

package xmpp

import (
	"encoding/xml"
	"errors"
	"fmt"
	"strings"
	"testing"

	"gosrc.io/xmpp/stanza"
	"verif/hx"
	"verif/vnet"
	"verif/vrt"
)

// C10: sent stanzas are held until acknowledged and retransmitted in order.
// Reference ledger in wire order.

type c10entry struct {
	raw      string
	optional bool // sent by the library itself (initial presence): holding it is allowed, not required
	first    int  // wire position of the first transmission (-1: not yet on the wire)
	last     int  // wire position of the latest transmission
}

// c10ledger is the reference: logical stanzas in first-transmission order, and the
// wire (one entry per transmitted stanza instance).
//
// When an acknowledgement h=N lands inside a region of retransmitted copies, "the N
// oldest stanzas sent" can be read per logical stanza, per first copy or per latest
// copy. The reference only asserts where all readings agree: a stanza whose logical
// index is >= N must still be held, one whose latest copy is among the first N wire
// instances must be discarded; in between nothing is asserted.
type c10ledger struct {
	log   []*c10entry
	wire  []int // logical index per wire instance
	acked int   // highest acknowledgement seen, clamped to the wire length
}

func (l *c10ledger) accept(raw string, optional bool) {
	l.log = append(l.log, &c10entry{raw: raw, optional: optional, first: -1, last: -1})
}

// classes returns the raw strings that must be held, may be held, in original order.
func (l *c10ledger) classes() (must, may []string) {
	for i, e := range l.log {
		switch {
		case e.last >= 0 && e.last < l.acked:
			// every copy acknowledged: must be discarded
		case i >= l.acked && !e.optional:
			must = append(must, e.raw)
		default:
			may = append(may, e.raw)
		}
	}
	return
}

func c10stanzaName(n string) bool { return n == "message" || n == "presence" || n == "iq" }

// absorb records the units the client wrote during a step and returns them raw.
func (l *c10ledger) absorb(us []unit) []string {
	var raws []string
	for _, u := range us {
		raws = append(raws, u.raw)
		if u.kind == "element" && c10stanzaName(u.name) {
			id := -1
			for k, e := range l.log {
				if e.raw == u.raw {
					id = k
				}
			}
			if id < 0 {
				l.accept(u.raw, true)
				id = len(l.log) - 1
			}
			pos := len(l.wire)
			l.wire = append(l.wire, id)
			if l.log[id].first < 0 {
				l.log[id].first = pos
			}
			l.log[id].last = pos
		}
	}
	return raws
}

func c10queue(cl *Client) []string {
	var parts []string
	if cl.Session == nil || cl.Session.SMState.UnAckQueue == nil {
		return nil
	}
	for _, q := range cl.Session.SMState.UnAckQueue.PeekN(1 << 20) {
		if u, ok := q.(*stanza.UnAckedStz); ok {
			parts = append(parts, u.Stz)
		}
	}
	return parts
}

func c10isNonza(raw string) bool {
	return strings.HasPrefix(raw, "<r ") || strings.HasPrefix(raw, "<a ") || strings.HasPrefix(raw, "<r/") || strings.HasPrefix(raw, "<a/") || strings.Contains(raw, "urn:xmpp:sm:3")
}

// c10match checks a list (held queue, or retransmitted stanzas) against the
// reference classes: every must element present, in order; nothing outside must+may;
// no duplicates. It returns a failure class or "".
func c10match(got, must, may []string) string {
	allowed := map[string]bool{}
	for _, m := range must {
		allowed[m] = true
	}
	for _, m := range may {
		allowed[m] = true
	}
	seen := map[string]bool{}
	for _, g := range got {
		if c10isNonza(g) {
			return "nonza"
		}
		if !allowed[g] {
			return "acked-or-foreign"
		}
		if seen[g] {
			return "duplicate"
		}
		seen[g] = true
	}
	for _, m := range must {
		if !seen[m] {
			return "missing"
		}
	}
	// relative order of the must elements
	i := 0
	for _, g := range got {
		if i < len(must) && g == must[i] {
			i++
		}
	}
	if i != len(must) {
		return "order"
	}
	return ""
}

// checkHeld compares the queue with the reference after a step.
func c10checkHeld(cl *Client, l *c10ledger, hist string) {
	q := c10queue(cl)
	must, may := l.classes()
	switch c10match(q, must, may) {
	case "nonza":
		vrt.Fail("C10|nonza-held", "%s: the held queue contains a stream-management element (queue %q)", hist, q)
	case "missing":
		vrt.Fail("C10|unacked-stanza-not-held", "%s: an accepted, unacknowledged stanza is not held (queue %q, must hold %q)", hist, q, must)
	case "acked-or-foreign":
		vrt.Fail("C10|acked-stanza-still-held", "%s: an acknowledged stanza is still held (queue %q, must hold %q, may hold %q, acked %d, wire %v)", hist, q, must, may, l.acked, l.wire)
	case "duplicate", "order":
		vrt.Fail("C10|held-order-or-duplicates", "%s: queue %q, must hold in order %q", hist, q, must)
	}
}

var c10ops = []string{"send-m", "raw-p", "send-mp", "send-r", "in-r", "a=0", "a=1", "a=w-1", "a=w", "a=w+1", "send-rp", "raw-r", "send-a", "raw-a", "raw-ws"}

func c10body(first []string, maxLen int, prelude bool) func() {
	return func() {
		ops := append([]string{}, first...)
		s := newSess(sessOpts{sm: true, smResume: true, resumeAns: "failed"})
		if s.cl == nil {
			return
		}
		if err := s.cl.Connect(); err != nil {
			vrt.Fail("C10|harness|connect", "%v", err)
			return
		}
		vrt.WaitIdle()
		sc := s.conn(0)
		if prelude {
			// an earlier stream-managed session with two unacknowledged stanzas, lost; its resumption is
			// refused, so the session under test is a fresh one: nothing of the old one may leak into it
			_ = s.cl.Send(stanza.Message{Attrs: stanza.Attrs{To: "peer@example.org", Id: "old1"}, Body: "old"})
			_ = s.cl.Send(stanza.Message{Attrs: stanza.Attrs{To: "peer@example.org", Id: "old2"}, Body: "old"})
			vrt.WaitIdle()
			sc.close()
			vrt.WaitIdle()
			if err := s.cl.Connect(); err != nil {
				vrt.Fail("C10|harness|reconnect", "%v", err)
				return
			}
			vrt.WaitIdle()
			sc = s.conn(1)
			if sc == nil || len(s.recs) < 2 || !s.recs[1].EnableOK {
				vrt.Fail("C10|harness|fresh-session", "the second connection did not enable stream management afresh")
				return
			}
		}
		l := &c10ledger{}
		// the initial presence was the first unit of the established phase (handed back by the script)
		l.absorb(append(sc.pending, sc.drainNew()...))
		sc.pending = nil
		if len(l.wire) != 1 {
			vrt.Fail("C10|harness|initial-presence", "expected exactly the initial presence on the wire, got %v", l.wire)
			return
		}
		hist := ""
		for i := 0; i < maxLen; i++ {
			var op string
			if i < len(ops) {
				op = ops[i]
			} else {
				k := vrt.ChooseFree("op", len(c10ops)+1)
				if k == 0 {
					break
				}
				op = c10ops[k-1]
			}
			hist += op + " "
			switch op {
			case "send-m":
				m := stanza.Message{Attrs: stanza.Attrs{To: "peer@example.org", Id: fmt.Sprintf("m%d", i), Type: "chat"}, Body: fmt.Sprintf("body %d", i)}
				l.accept(c10wire(m), false)
				if err := s.cl.Send(m); err != nil {
					vrt.Fail("C10|send-error", "%s: %v", hist, err)
				}
			case "send-mp":
				// the same kind of stanza passed by pointer (both forms implement stanza.Packet)
				m := &stanza.Message{Attrs: stanza.Attrs{To: "peer@example.org", Id: fmt.Sprintf("mp%d", i), Type: "chat"}, Body: fmt.Sprintf("ptr %d", i)}
				l.accept(c10wire(m), false)
				if err := s.cl.Send(m); err != nil {
					vrt.Fail("C10|send-error", "%s: %v", hist, err)
				}
			case "raw-p":
				raw := fmt.Sprintf("<presence id='p%d'><status>s%d</status></presence>", i, i)
				l.accept(raw, false)
				if err := s.cl.SendRaw(raw); err != nil {
					vrt.Fail("C10|send-error", "%s: %v", hist, err)
				}
			case "raw-ws":
				// raw stanzas laid out as a template or a pretty-printer writes them: white space of every kind after
				// the element name, no attributes at all
				raw := []string{
					"<message\n\tto='peer@example.org'\n\tid='w%d'><body>b%d</body></message>",
					"<iq\r\n type='set' id='w%d'><q xmlns='urn:example:q' n='%d'/></iq>",
					"<presence\tid='w%d'><status>s%d</status></presence>",
					"<message\rid='w%d'><body>b%d</body></message>",
					"<presence><status>w%d s%d</status></presence>",
				}[i%5]
				raw = fmt.Sprintf(raw, i, i)
				l.accept(raw, false)
				if err := s.cl.SendRaw(raw); err != nil {
					vrt.Fail("C10|send-error", "%s: %v", hist, err)
				}
			case "send-r":
				_ = s.cl.Send(stanza.SMRequest{})
			case "send-rp":
				// the same element passed by pointer
				_ = s.cl.Send(&stanza.SMRequest{})
			case "raw-r":
				_ = s.cl.SendRaw("<r xmlns='urn:xmpp:sm:3'/>")
			case "send-a":
				_ = s.cl.Send(stanza.SMAnswer{H: 0})
			case "raw-a":
				_ = s.cl.SendRaw("<a xmlns='urn:xmpp:sm:3' h='0'/>")
			case "in-r":
				sc.send("<r xmlns='urn:xmpp:sm:3'/>")
			default: // a=...
				w := len(l.wire)
				n := 0
				switch op {
				case "a=1":
					n = 1
				case "a=w-1":
					n = w - 1
				case "a=w":
					n = w
				case "a=w+1":
					n = w + 1
				}
				if n < 0 {
					n = 0
				}
				sc.send(fmt.Sprintf("<a xmlns='urn:xmpp:sm:3' h='%d'/>", n))
				if n > w {
					n = w
				}
				if n > l.acked {
					l.acked = n
				}
			}
			vrt.WaitIdle()
			us := sc.drainNew()
			must, may := l.classes() // after this step's acknowledgement, before absorbing retransmissions
			raws := l.absorb(us)
			vrt.Log("%s -> wrote %s", op, unitNames(us))
			switch {
			case strings.HasPrefix(op, "a="):
				stz := raws
				gotR := 0
				if n := len(raws); n > 0 && c10isNonza(raws[n-1]) && strings.HasPrefix(raws[n-1], "<r") {
					stz, gotR = raws[:n-1], 1
				}
				ctx := fmt.Sprintf("history [%s]: after the acknowledgement the client wrote %q; must retransmit %q, may retransmit %q (acked %d, wire %v)", hist, raws, must, may, l.acked, l.wire)
				switch c10match(stz, must, may) {
				case "nonza":
					vrt.Fail("C10|nonza-retransmitted", "%s", ctx)
				case "missing":
					if len(stz) == 0 {
						vrt.Fail("C10|nothing-retransmitted", "%s", ctx)
					} else {
						vrt.Fail("C10|retransmission-incomplete", "%s", ctx)
					}
				case "acked-or-foreign":
					if len(must)+len(may) == 0 {
						vrt.Fail("C10|wrote-although-nothing-held", "%s", ctx)
					} else {
						vrt.Fail("C10|acked-stanza-retransmitted", "%s", ctx)
					}
				case "duplicate", "order":
					vrt.Fail("C10|retransmission-order", "%s", ctx)
				default:
					if len(stz) > 0 && gotR != 1 {
						vrt.Fail("C10|no-request-after-retransmission", "%s", ctx)
					}
					if len(stz) == 0 && len(raws) != 0 {
						vrt.Fail("C10|wrote-although-nothing-held", "%s", ctx)
					}
				}
			case op == "send-m" || op == "raw-p" || op == "send-mp" || op == "raw-ws":
				if len(raws) != 1 || raws[0] != l.log[len(l.log)-1].raw {
					vrt.Fail("C10|send-wire-wrong", "history [%s]: wrote %q, want exactly %q", hist, raws, l.log[len(l.log)-1].raw)
				}
			case op == "send-r" || op == "send-rp" || op == "raw-r" || op == "send-a" || op == "raw-a":
				if len(raws) != 1 || !c10isNonza(raws[0]) {
					vrt.Fail("C10|request-wire-wrong", "history [%s]: wrote %q for an acknowledgement request", hist, raws)
				}
			case op == "in-r":
				if len(raws) != 1 || !strings.HasPrefix(raws[0], "<a ") {
					vrt.Fail("C10|answer-wire-wrong", "history [%s]: wrote %q in answer to <r/>", hist, raws)
				}
			}
			c10checkHeld(s.cl, l, "history ["+hist+"]")
		}
	}
}

// c10conc: concurrent senders racing an acknowledgement. At quiescence every accepted
// stanza that the acknowledgement did not cover must be held exactly once.
func c10conc(progs [][]string, ackH int) func() {
	return c10concN(progs, 0, []int{ackH})
}

// c10concN: after `prelude` stanzas sent and settled, concurrent senders race the acknowledgements `acks`,
// which the server writes in one segment (the client routes each in its own goroutine).
func c10concN(progs [][]string, prelude int, acks []int) func() {
	return func() {
		vrt.Quiet(true)
		s := newSess(sessOpts{sm: true, smResume: true, keepalive: 3600})
		if s.cl == nil {
			return
		}
		if err := s.cl.Connect(); err != nil {
			vrt.Fail("C10|harness|connect", "%v", err)
			return
		}
		vrt.WaitIdle()
		sc := s.conn(0)
		for i := 0; i < prelude; i++ {
			_ = s.cl.Send(stanza.Message{Attrs: stanza.Attrs{To: "peer@example.org", Id: fmt.Sprintf("pre%d", i), Type: "chat"}, Body: "p"})
		}
		vrt.WaitIdle()
		sc.pending = nil
		sc.drainNew()
		vrt.Quiet(false)
		var accepted []string
		for ti, prog := range progs {
			ti, prog := ti, prog
			var mine []string
			for oi, op := range prog {
				id := fmt.Sprintf("t%do%d", ti, oi)
				if op == "raw" {
					mine = append(mine, fmt.Sprintf("<presence id='%s'><status>x</status></presence>", id))
				} else {
					mine = append(mine, c10wire(stanza.Message{Attrs: stanza.Attrs{To: "peer@example.org", Id: id, Type: "chat"}, Body: "b"}))
				}
			}
			accepted = append(accepted, mine...)
			vrt.Go(fmt.Sprintf("sender%d", ti), func() {
				for oi, op := range prog {
					id := fmt.Sprintf("t%do%d", ti, oi)
					if op == "raw" {
						_ = s.cl.SendRaw(mine[oi])
					} else {
						_ = s.cl.Send(stanza.Message{Attrs: stanza.Attrs{To: "peer@example.org", Id: id, Type: "chat"}, Body: "b"})
					}
				}
			})
		}
		var ab strings.Builder
		for _, h := range acks {
			fmt.Fprintf(&ab, "<a xmlns='urn:xmpp:sm:3' h='%d'/>", h)
		}
		sc.send(ab.String())
		vrt.WaitIdle()
		vrt.Quiet(true)
		q := c10queue(s.cl)
		desc := fmt.Sprintf("senders %v racing <a h=%v/>", progs, acks)
		if prelude > 0 {
			desc = fmt.Sprintf("after the initial presence and %d stanzas, %s (one segment)", prelude, desc)
		}
		count := map[string]int{}
		for _, e := range q {
			count[e]++
			if c10isNonza(e) {
				vrt.Fail("C10|nonza-held|concurrent", "%s: queue %q", desc, q)
			}
		}
		for _, a := range accepted {
			switch {
			case count[a] == 0:
				vrt.Fail("C10|unacked-stanza-not-held|concurrent", "%s: %s was accepted and never acknowledged but is not held at quiescence (queue %q)", desc, a, q)
			case count[a] > 1:
				vrt.Fail("C10|held-twice|concurrent", "%s: %s is held %d times (queue %q)", desc, a, count[a], q)
			}
		}
		// sequence numbers strictly increasing
		if uq := s.cl.Session.SMState.UnAckQueue; uq != nil {
			last := 0
			for _, e := range uq.Uslice {
				if e == nil || e.Id <= last {
					vrt.Fail("C10|held-numbers-not-increasing|concurrent", "%s: queue numbering broken", desc)
					break
				}
				last = e.Id
			}
		}
		vrt.Log("queue %d entries", len(q))
		// follow-up, for the plain case (one acknowledgement that covers nothing of what the senders sent): the
		// server now acknowledges the first of the concurrently sent stanzas, as it saw them on the wire. That
		// one, and only that one, is delivered; the numbers the client gave must agree with the wire order.
		if prelude == 0 && len(acks) == 1 && acks[0] <= 1 && len(accepted) >= 2 {
			var wire []string
			for _, u := range sc.drainNew() {
				if u.kind == "element" && c10stanzaName(u.name) {
					for _, a := range accepted {
						if u.raw == a {
							wire = append(wire, a)
						}
					}
				}
			}
			if acks[0] == 0 {
				// <a h=0/> made the client send the initial presence again: it is on the wire twice, the stanzas
				// of the senders come after both copies or in between - the count is not simply 2
				return
			}
			if len(wire) != len(accepted) {
				return // a retransmission mixed in (or a write missing): wire positions are not those of first transmissions only
			}
			sc.send("<a xmlns='urn:xmpp:sm:3' h='2'/>")
			vrt.WaitIdle()
			q2 := c10queue(s.cl)
			cnt := map[string]int{}
			for _, e := range q2 {
				cnt[e]++
			}
			if cnt[wire[0]] != 0 {
				vrt.Fail("C10|acked-stanza-still-held|concurrent", "%s, then <a h=2/>: %s was the first stanza on the wire after the initial presence and is acknowledged, but still held (queue %q, wire order %q)", desc, wire[0], q2, wire)
			}
			for _, w := range wire[1:] {
				if cnt[w] == 0 {
					vrt.Fail("C10|unacked-stanza-discarded|concurrent", "%s, then <a h=2/>: %s came after the acknowledged stanza on the wire but is not held any more (queue %q, wire order %q)", desc, w, q2, wire)
				}
			}
		}
	}
}

// c10wire is the serialization a Send of p puts on the wire (whatever attribute order and
// quoting the encoder uses: the check is about holding and re-sending it, not about its shape).
// c10fault: the write of the k-th retransmitted stanza fails (the connection broke while the client was
// sending again what an acknowledgement did not cover). Nothing that is unacknowledged may fall out of the
// held queue: the session can still be resumed and must then send it again.
func c10fault(nSent, ackH, failAt int, short bool) func() {
	return func() {
		s := newSess(sessOpts{sm: true, smResume: true, resumeAns: "failed"})
		if s.cl == nil {
			return
		}
		if err := s.cl.Connect(); err != nil {
			vrt.Fail("C10|harness|connect", "%v", err)
			return
		}
		vrt.WaitIdle()
		sc := s.conn(0)
		l := &c10ledger{}
		l.absorb(append(sc.pending, sc.drainNew()...))
		sc.pending = nil
		hist := ""
		for i := 0; i < nSent; i++ {
			m := stanza.Message{Attrs: stanza.Attrs{To: "peer@example.org", Id: fmt.Sprintf("m%d", i), Type: "chat"}, Body: fmt.Sprintf("body %d", i)}
			l.accept(c10wire(m), false)
			if err := s.cl.Send(m); err != nil {
				vrt.Fail("C10|send-error", "%v", err)
			}
			hist += "send-m "
		}
		vrt.WaitIdle()
		l.absorb(sc.drainNew())
		writes := 0
		sc.raw.Peer().WriteFault = func(c *vnet.Conn, p []byte) (int, error) {
			writes++
			if writes-1 < failAt {
				return -1, nil
			}
			// from here on the connection is broken for writing
			if short && writes-1 == failAt {
				return len(p) / 2, errors.New("write: connection reset by peer")
			}
			return 0, errors.New("write: broken pipe")
		}
		hist += fmt.Sprintf("a=%d with the write of retransmission #%d failing", ackH, failAt+1)
		sc.send(fmt.Sprintf("<a xmlns='urn:xmpp:sm:3' h='%d'/>", ackH))
		if ackH > l.acked {
			l.acked = ackH
		}
		must, may := l.classes() // after the acknowledgement, before absorbing what was written again
		vrt.WaitIdle()
		l.absorb(sc.drainNew())
		q := c10queue(s.cl)
		vrt.Log("held %q", q)
		// the client is still usable: a Send after the failed retransmission returns (with an error, the connection
		// being what it is) and does not block on anything the failed retransmission left locked
		sendReturned := false
		vrt.Go("later-sender", func() {
			_ = s.cl.Send(stanza.Message{Attrs: stanza.Attrs{To: "peer@example.org", Id: "later", Type: "chat"}, Body: "later"})
			sendReturned = true
		})
		vrt.WaitIdle()
		if !sendReturned {
			vrt.Fail("C10|send-blocks-after-failed-retransmission", "history [%s]: a Send made afterwards never returned (alive: %v)", hist, vrt.Alive())
		}
		switch c10match(q, must, may) {
		case "missing":
			vrt.Fail("C10|unacked-stanza-dropped-on-failed-retransmission", "history [%s]: held queue %q no longer holds the unacknowledged stanzas %q", hist, q, must)
		case "duplicate", "order":
			vrt.Fail("C10|held-order-or-duplicates", "history [%s]: queue %q, must hold in order %q", hist, q, must)
		case "nonza":
			vrt.Fail("C10|nonza-held", "history [%s]: the held queue contains a stream-management element (queue %q)", hist, q)
		}
	}
}

// c10reactive: a server that acknowledges everything (h = its count) the moment it has read the last stanza of
// the senders' programs. The acknowledgement races with whatever the sending goroutine still has to do after that
// last write: when everything has settled, every stanza was acknowledged and nothing may be held any more, and
// nothing was sent twice. (A server acknowledging EVERY stanza at once is no use as a driver: with "send again
// whatever an acknowledgement does not cover", which the property prescribes, one stanza in flight when an
// acknowledgement arrives starts an exchange of copies and acknowledgements that never ends.)
func c10reactive(progs [][]string) func() {
	return func() {
		vrt.Quiet(true)
		var wire []string
		total := 0
		for _, prog := range progs {
			total += len(prog)
		}
		s := newSess(sessOpts{sm: true, smResume: true, keepalive: 3600, served: func(sc *srvConn, r *negRec) {
			count := 0 // the initial presence is the first stanza read here
			for {
				u := sc.read()
				if u.kind == "eof" || u.kind == "close" || vrt.Killed() {
					return
				}
				if u.kind == "element" && c10stanzaName(u.name) {
					count++
					wire = append(wire, u.raw)
					if count == total+1 {
						sc.send(fmt.Sprintf("<a xmlns='urn:xmpp:sm:3' h='%d'/>", count))
					}
				}
			}
		}})
		if s.cl == nil {
			return
		}
		if err := s.cl.Connect(); err != nil {
			vrt.Fail("C10|harness|connect", "%v", err)
			return
		}
		vrt.WaitIdle()
		vrt.Quiet(false)
		for ti, prog := range progs {
			ti, prog := ti, prog
			vrt.Go(fmt.Sprintf("sender%d", ti), func() {
				for oi, op := range prog {
					id := fmt.Sprintf("t%do%d", ti, oi)
					if op == "raw" {
						_ = s.cl.SendRaw(fmt.Sprintf("<presence id='%s'><status>x</status></presence>", id))
					} else {
						_ = s.cl.Send(stanza.Message{Attrs: stanza.Attrs{To: "peer@example.org", Id: id, Type: "chat"}, Body: "b"})
					}
				}
			})
		}
		vrt.WaitIdle()
		vrt.Quiet(true)
		q := c10queue(s.cl)
		desc := fmt.Sprintf("senders %v, the server acknowledging every stanza as soon as it has read it", progs)
		if len(q) != 0 {
			vrt.Fail("C10|acked-stanza-still-held|reactive-server", "%s: every stanza was acknowledged, yet the queue holds %q (wire %q)", desc, q, wire)
		}
		if len(wire) != total+1 {
			vrt.Fail("C10|acked-stanza-retransmitted|reactive-server", "%s: the initial presence and %d stanzas sent, the server read %d: %q", desc, total, len(wire), wire)
		}
	}
}

// c10failedAttempt: stanzas sent and not acknowledged, the connection lost, one reconnection attempt that fails
// in the middle of the negotiation (the server goes away at `failStep`), then an attempt that succeeds. Through
// all of this the stanzas are unacknowledged: they must still be held, and be sent again when the server's next
// acknowledgement does not cover them.
func c10failedAttempt(failStep string) func() {
	return func() {
		s := newSess(sessOpts{sm: true, smResume: true, serverCfg: func(k int, c *negCfg) {
			if k == 1 {
				inner := c.pick
				c.pick = func(step string, alts ...string) string {
					if step == failStep {
						for _, a := range alts {
							if a == "close" {
								return a
							}
						}
					}
					return inner(step, alts...)
				}
			}
		}})
		if s.cl == nil {
			return
		}
		if err := s.cl.Connect(); err != nil {
			vrt.Fail("C10|harness|connect", "%v", err)
			return
		}
		vrt.WaitIdle()
		var sent []string
		for i := 0; i < 2; i++ {
			m := stanza.Message{Attrs: stanza.Attrs{To: "peer@example.org", Id: fmt.Sprintf("fa%d", i), Type: "chat"}, Body: "b"}
			sent = append(sent, c10wire(m))
			_ = s.cl.Send(m)
		}
		vrt.WaitIdle()
		s.conn(0).close()
		vrt.WaitIdle()
		if err := s.cl.Connect(); err == nil {
			vrt.Fail("C10|harness|attempt-did-not-fail", "the attempt whose %s step the server cuts did not fail", failStep)
			return
		}
		vrt.WaitIdle()
		if err := s.cl.Connect(); err != nil {
			vrt.Fail("C10|harness|reconnect", "%v", err)
			return
		}
		vrt.WaitIdle()
		hist := fmt.Sprintf("presence + 2 stanzas sent, connection lost, one attempt cut by the server at %s, then a successful one", failStep)
		held := func() bool {
			q := c10queue(s.cl)
			pos := 0
			for _, h := range q {
				if pos < len(sent) && h == sent[pos] {
					pos++
				}
			}
			return pos == len(sent)
		}
		if !held() {
			vrt.Fail("C10|unacked-stanza-dropped-by-failed-attempt", "history [%s]: the held queue %q no longer holds the unacknowledged stanzas %q", hist, c10queue(s.cl), sent)
			return
		}
		sc := s.conn(2)
		if sc == nil {
			vrt.Fail("C10|harness|no-third-connection", "")
			return
		}
		sc.pending = nil
		sc.drainNew()
		resumed := len(s.recs) > 2 && s.recs[2].Resumed
		if !resumed {
			// a new session (the client chose not to resume): the old stanzas were never acknowledged, they still
			// have to reach the server - nothing more is asserted here than that they are still held (above)
			return
		}
		sc.send("<a xmlns='urn:xmpp:sm:3' h='1'/>")
		vrt.WaitIdle()
		var again []string
		for _, u := range sc.drainNew() {
			if u.kind == "element" && c10stanzaName(u.name) {
				again = append(again, u.raw)
			}
		}
		// (Connect sends an initial presence on the resumed session too: it follows the two stanzas)
		if len(again) < len(sent) || strings.Join(again[:len(sent)], "|") != strings.Join(sent, "|") {
			vrt.Fail("C10|retransmission-incomplete|after-failed-attempt", "history [%s], session resumed, <a h=1/>: sent again %q, want %q", hist, again, sent)
		}
	}
}

// c10resumed: stanzas sent, an acknowledgement for the first k of them, more stanzas sent, the connection
// lost, the session resumed with <resumed h=j/> (j >= k: the server's count never goes back). Whatever the
// client makes of that count, every stanza beyond max(k, j) is unacknowledged and must still be held, in order.
func c10resumed(n1, k, n2, j int) func() {
	return func() {
		s := newSess(sessOpts{sm: true, smResume: true, resumedH: func() int { return j }})
		if s.cl == nil {
			return
		}
		if err := s.cl.Connect(); err != nil {
			vrt.Fail("C10|harness|connect", "%v", err)
			return
		}
		vrt.WaitIdle()
		sc := s.conn(0)
		sc.drainNew()
		sc.pending = nil
		var sent []string // sent[0] is the initial presence (position 1 on the wire)
		sent = append(sent, "<presence/>")
		send := func(tag string, n int) {
			for i := 0; i < n; i++ {
				m := stanza.Message{Attrs: stanza.Attrs{To: "peer@example.org", Id: fmt.Sprintf("%s%d", tag, i), Type: "chat"}, Body: tag}
				sent = append(sent, c10wire(m))
				if err := s.cl.Send(m); err != nil {
					vrt.Fail("C10|send-error", "%v", err)
				}
			}
			vrt.WaitIdle()
		}
		send("a", n1)
		// the server has handled exactly the first k stanzas: nothing is left to send again
		sc.send(fmt.Sprintf("<a xmlns='urn:xmpp:sm:3' h='%d'/>", k))
		vrt.WaitIdle()
		if k < 1+n1 {
			// what the acknowledgement did not cover was sent again (numbered again by the client): from the server's
			// point of view these are further stanzas, so this history keeps to acknowledgements that cover everything
			vrt.Fail("C10|harness|resumed-history", "k=%d must cover the %d stanzas sent", k, 1+n1)
			return
		}
		send("b", n2)
		sc.close()
		vrt.WaitIdle()
		if err := s.cl.Connect(); err != nil {
			vrt.Fail("C10|harness|reconnect", "%v", err)
			return
		}
		vrt.WaitIdle()
		if len(s.recs) < 2 || !s.recs[1].Resumed {
			vrt.Fail("C10|harness|not-resumed", "the second connection did not resume the session")
			return
		}
		hist := fmt.Sprintf("presence + %d stanzas sent, <a h=%d>, %d more sent, connection lost, <resumed h=%d>", n1, k, n2, j)
		must := sent[j:]
		q := c10queue(s.cl)
		vrt.Log("held %q", q)
		pos := 0
		for _, h := range q {
			if pos < len(must) && h == must[pos] {
				pos++
			}
		}
		if pos != len(must) {
			vrt.Fail("C10|unacked-stanza-dropped-at-resumption", "history [%s]: the held queue %q no longer holds, in order, the stanzas beyond the server's count %q", hist, q, must)
		}
	}
}

func c10wire(p interface{}) string {
	b, err := xml.Marshal(p)
	if err != nil {
		return "marshal-error:" + err.Error()
	}
	return string(b)
}

func max0(n int) int {
	if n < 0 {
		return 0
	}
	return n
}

func c10verdict(e *vrt.Exec) {
	if e.Panic != nil {
		vrt.Fail("C10|panic", "%s %s", e.Panic.Value, trimStack(e.Panic.Stack))
	} else if e.Deadlock {
		vrt.Fail("C10|hang", "blocked: %s", e.BlockedSummary())
	}
}

func TestVerifC10(t *testing.T) {
	maxLen := 4
	if hx.Thorough() {
		maxLen = 5
	}
	var scs []hx.Scenario
	for _, a := range c10ops {
		for _, b := range c10ops {
			scs = append(scs, hx.Scenario{Name: "seq/first=" + a + "," + b, Opt: vrt.Options{Bound: 0}, Body: c10body([]string{a, b}, maxLen, false), Verdict: c10verdict})
		}
	}
	if hx.Thorough() {
		// shorter histories with every single departure from the default schedule (the routing goroutine
		// that handles an <a/> running late or early relative to the receive loop and the sender)
		for _, a := range c10ops {
			scs = append(scs, hx.Scenario{Name: "seq-dev1/first=" + a, Opt: vrt.Options{Bound: 1, TouchOn: []string{"Uslice"}}, Body: c10body([]string{a}, 3, false), Verdict: c10verdict})
		}
	}
	for _, a := range c10ops {
		scs = append(scs, hx.Scenario{Name: "after-refused-resumption/first=" + a, Opt: vrt.Options{Bound: 0}, Body: c10body([]string{a}, maxLen-1, true), Verdict: c10verdict})
	}
	cb := 2
	if hx.Thorough() {
		cb = 3
	}
	for _, progs := range [][][]string{{{"msg"}, {"raw"}}, {{"msg", "msg"}, {"raw"}}, {{"msg", "raw"}, {"raw", "msg"}}} {
		for _, h := range []int{0, 1} {
			scs = append(scs, hx.Scenario{Name: fmt.Sprintf("conc/%v/h=%d", progs, h), Opt: vrt.Options{Bound: cb, Horizon: 50000, TouchOn: []string{"Uslice"}},
				Body: c10conc(progs, h), Verdict: c10verdict})
		}
	}
	for _, progs := range [][][]string{{{"msg"}}, {{"raw", "msg"}}, {{"msg"}, {"raw"}}} {
		scs = append(scs, hx.Scenario{Name: fmt.Sprintf("reactive-ack/%v", progs), Opt: vrt.Options{Bound: cb, Horizon: 50000},
			Body: c10reactive(progs), Verdict: c10verdict})
	}
	// (a connection cut at the <resume/> step itself is C11's business: the resumption state is discarded then)
	for _, step := range []string{"header1", "auth", "header3"} {
		scs = append(scs, hx.Scenario{Name: "failed-attempt/" + step, Opt: vrt.Options{Bound: 0}, Body: c10failedAttempt(step), Verdict: c10verdict})
	}
	for _, acks := range [][]int{{2, 4}, {1, 4}, {4, 2}, {2, 2}} {
		scs = append(scs, hx.Scenario{Name: fmt.Sprintf("conc-acks/%v", acks), Opt: vrt.Options{Bound: cb, Horizon: 50000, TouchOn: []string{"Uslice"}},
			Body: c10concN([][]string{{"raw"}}, 3, acks), Verdict: c10verdict})
	}
	for _, n1 := range []int{1, 2} {
		for _, n2 := range []int{1, 2, 3} {
			k := 1 + n1
			for j := k; j <= k+n2; j++ {
				scs = append(scs, hx.Scenario{Name: fmt.Sprintf("resumed-h/sent=%d/a=%d/sent=%d/resumed=%d", n1, k, n2, j), Opt: vrt.Options{Bound: 0},
					Body: c10resumed(n1, k, n2, j), Verdict: c10verdict})
			}
		}
	}
	for _, n := range []int{2, 3, 4} {
		for h := 1; h <= n; h++ { // h counts the initial presence: h=1 acknowledges none of the n messages
			for k := 0; k < n-h+1; k++ {
				for _, short := range []bool{false, true} {
					scs = append(scs, hx.Scenario{Name: fmt.Sprintf("resend-fault/sent=%d/h=%d/fail-at=%d/short=%v", n, h, k, short), Opt: vrt.Options{Bound: thoroughBound(1)},
						Body: c10fault(n, h, k, short), Verdict: c10verdict})
				}
			}
		}
	}
	if hx.Main("C10", scs) == 2 {
		t.Fatal("internal error")
	}
}
