//go:build verif

package xmpp

import (
	"errors"
	"fmt"
	"strings"

	"verif/hx"

	"gosrc.io/xmpp/stanza"
)

// C06 with the library's own senders. Router.route does some processing of its own before it
// dispatches (a stream-management answer makes a *Client send again what the server did not get);
// whatever that processing does - nothing, a re-send, a re-send that fails - the packet is still
// dispatched to the first matching route, once. Sender alphabet: a *Component, and a *Client in every
// combination of {no stream management, empty queue, queue fully acknowledged by the answer, queue
// with stanzas the answer does not cover} x {transport that writes, transport whose writes fail, no
// transport (disconnected)}.

type c06transport struct {
	Transport
	fail    bool
	written []string
}

func (t *c06transport) Write(p []byte) (int, error) {
	if t.fail {
		return 0, errors.New("broken pipe")
	}
	t.written = append(t.written, string(p))
	return len(p), nil
}

type c06senderKind struct {
	name string
	mk   func(r *Router) (Sender, *c06transport, []string)
}

func c06senderKinds() []c06senderKind {
	var kinds []c06senderKind
	for _, q := range []string{"no-sm", "empty", "acked", "pending"} {
		for _, tr := range []string{"writes", "fails", "none"} {
			q, tr := q, tr
			kinds = append(kinds, c06senderKind{name: "client/queue=" + q + "/transport=" + tr, mk: func(r *Router) (Sender, *c06transport, []string) {
				c := &Client{config: &Config{StreamManagementEnable: q != "no-sm"}, Session: &Session{}, router: r}
				c.CurrentState.setState(StateSessionEstablished) // a client that is routing has an established session
				var held []string
				if q != "no-sm" {
					c.Session.SMState.UnAckQueue = stanza.NewUnAckQueue()
					n := map[string]int{"empty": 0, "acked": 2, "pending": 5}[q]
					for i := 1; i <= n; i++ {
						s := fmt.Sprintf(`<message id="held%d" to="juliet@example.net"><body>%d</body></message>`, i, i)
						held = append(held, s)
						c.Session.SMState.UnAckQueue.Push(&stanza.UnAckedStz{Stz: s})
					}
				}
				var t *c06transport
				if tr != "none" {
					t = &c06transport{fail: tr == "fails"}
					c.transport = t
				}
				return c, t, held
			}})
		}
	}
	kinds = append(kinds, c06senderKind{name: "component/transport=writes", mk: func(r *Router) (Sender, *c06transport, []string) {
		t := &c06transport{}
		return &Component{ComponentOptions: ComponentOptions{}, router: r, transport: t}, t, nil
	}})
	return kinds
}

func c06runSenders(c *hx.Ctx, kind c06senderKind, table []c06route, packets []c06packet) {
	for _, p := range packets {
		var log []int
		r := c06build(table, &log)
		snd, tr, held := kind.mk(r)
		pk := p.mk()
		in := fmt.Sprintf("sender=%s table=%v packet=%s", kind.name, table, p.desc)
		c.Beat("C06|stall|own-sender", in)
		r.route(snd, pk)
		c.Step(1)
		want := -1
		for i, rt := range table {
			if c06accepts(rt, p) {
				want = i
				break
			}
		}
		// replies: what was written that is not a re-sent held stanza
		replies := 0
		if tr != nil {
			for _, w := range tr.written {
				isHeld := false
				for _, h := range held {
					isHeld = isHeld || w == h
				}
				if _, isA := pk.(stanza.SMAnswer); isA && strings.HasPrefix(w, "<r ") {
					// the ack request that follows a re-send belongs to the same processing of the answer
					isHeld = true
				}
				if !isHeld {
					replies++
					if !p.req || want >= 0 || !strings.Contains(w, "feature-not-implemented") {
						c.Fail("C06|own-sender|unexpected-write", in, "%s: wrote %q", in, w)
					}
				}
			}
		}
		c.Eval(fmt.Sprintf("%s|%v|%s|%v|%d", kind.name, table, p.desc, log, replies))
		kindName := p.name
		if kindName == "" {
			kindName = "nonstanza"
		}
		sk := kind.name[:strings.Index(kind.name, "/")]
		if want >= 0 {
			if len(log) != 1 || log[0] != want {
				c.Fail("C06|own-sender|wrong-handlers|"+sk+"|"+kindName, in, "%s: handlers run %v, reference [%d]", in, log, want)
			}
			continue
		}
		if len(log) != 0 {
			c.Fail("C06|own-sender|handler-without-match|"+sk+"|"+kindName, in, "%s: handlers run %v, reference none", in, log)
		}
		if p.req && tr != nil && !tr.fail && replies != 1 {
			c.Fail("C06|own-sender|request-error-count|"+sk, in, "%s: unmatched IQ request answered with %d writes, want exactly 1", in, replies)
		}
	}
}

func c06senderScenarios(routes []c06route, packets []c06packet) []hx.Scenario {
	var scs []hx.Scenario
	for _, k := range c06senderKinds() {
		k := k
		scs = append(scs, hx.Scenario{Name: "own-sender/" + k.name, Run: func(c *hx.Ctx) {
			c06style = 0
			c06runSenders(c, k, nil, packets)
			for _, r := range routes {
				c06runSenders(c, k, []c06route{r}, packets)
				c06runSenders(c, k, []c06route{r, {}}, packets)
				if hx.Thorough() {
					for _, r2 := range routes {
						c06runSenders(c, k, []c06route{r, r2}, packets)
					}
				}
			}
			c.Sample(map[string]any{"sender": k.name, "tables": "every single route, and each followed by a catch-all"})
		}})
	}
	return scs
}
