//go:build verif

package xmpp

import (
	"fmt"
	"strings"
	"time"

	"verif/hx"
	"verif/vnet"
	"verif/vrt"
)

// Scripted XMPP server: reacts to each client request with an answer taken from
// that step's alphabet through cfg.pick, and keeps an independent record of what
// happened (the reference for the oracles).

type negCfg struct {
	domain    string
	starttls  string   // absent | offered | required
	cert      string   // valid | wrong-host | unknown-issuer | expired
	mechs     []string // advertised SASL mechanisms
	session   string   // absent | optional | mandatory
	sm        bool     // advertise stream management after auth
	smID      string   // id handed out by <enabled/>
	jid       string   // bound JID to return
	resumedH  int      // h attribute of <resumed/>
	streamIDs []string
	// pick chooses the answer for a step; alts[0] is the success / default answer.
	pick func(step string, alts ...string) string
	// established, if set, runs once the session is up (after bind/enable or resume)
	established func(s *srvConn, r *negRec)
}

type negRec struct {
	Steps        []string // "step=answer"
	FailStep     string   // first step answered with a non-success answer
	FailAnswer   string
	TLSDone      bool
	AuthSeen     bool
	AuthOK       bool
	AuthMech     string
	AuthPayload  string
	AuthRaw      string
	AuthInTLS    bool
	Resumed      bool
	ResumeSeen   []string // raw <resume/> elements
	BindSeen     int
	BindOK       bool
	SessionSeen  int
	SessionOK    bool
	EnableSeen   int
	EnableOK     bool
	EnableAnswer string
	Established  bool     // server's view: every step the client asked for got its success answer and the client stopped asking
	Order        []string // order / protocol violations noticed by the script
	After        []string // elements received after a failure answer (other than stream close)
	Requests     []string // names of the client's requests in order
	phase        string
}

func defaultPick(step string, alts ...string) string { return alts[0] }

// explorePick makes every answer an alternative of a free choice point, so the
// explorer enumerates the whole tree of server behaviours.
func explorePick(step string, alts ...string) string {
	a := alts[vrt.ChooseFree("srv:"+step, len(alts))]
	hx.Symbol(step + "=" + a)
	return a
}

// deviationPick: alts[0] is free, any other answer costs one deviation.
func deviationPick(step string, alts ...string) string {
	a := alts[vrt.Choose("srv:"+step, len(alts))]
	hx.Symbol(step + "=" + a)
	return a
}

func (r *negRec) answer(step, a string, success bool) {
	r.Steps = append(r.Steps, step+"="+a)
	if !success && r.FailStep == "" {
		r.FailStep, r.FailAnswer = step, a
	}
}

const malformedXML = "<unclosed xmlns='urn:x'></mismatch>"

func (s *srvConn) features(cfg *negCfg, r *negRec) string {
	var sb strings.Builder
	sb.WriteString("<stream:features>")
	switch r.phase {
	case "pre-auth":
		if !s.inTLS {
			switch cfg.starttls {
			case "offered":
				sb.WriteString("<starttls xmlns='" + nsTLS + "'/>")
			case "required":
				sb.WriteString("<starttls xmlns='" + nsTLS + "'><required/></starttls>")
			}
		}
		sb.WriteString("<mechanisms xmlns='" + nsSASL + "'>")
		for _, m := range cfg.mechs {
			sb.WriteString("<mechanism>" + m + "</mechanism>")
		}
		sb.WriteString("</mechanisms>")
	case "authed":
		sb.WriteString("<bind xmlns='" + nsBind + "'/>")
		switch cfg.session {
		case "optional":
			sb.WriteString("<session xmlns='" + nsSess + "'><optional/></session>")
		case "mandatory":
			sb.WriteString("<session xmlns='" + nsSess + "'/>")
		}
		if cfg.sm {
			sb.WriteString("<sm xmlns='" + nsSM + "'/>")
		}
	}
	sb.WriteString("</stream:features>")
	return sb.String()
}

// fail handles the rest of a connection after a non-success answer: the client may
// only close its stream.
func (s *srvConn) drainAfterFailure(r *negRec) {
	for {
		u := s.read()
		switch u.kind {
		case "eof":
			s.close()
			return
		case "close":
			s.send("</stream:stream>")
			s.close()
			return
		case "element", "open":
			r.After = append(r.After, u.name)
		}
	}
}

// drainAfterFailureLenient is drainAfterFailure for the case where a client that wrongly carries
// on would otherwise wait forever for answers: bind and session requests are answered, so that
// "Connect returned nil although a step failed" is observed as such and not as a hang.
func (s *srvConn) drainAfterFailureLenient(r *negRec) {
	for {
		u := s.read()
		switch u.kind {
		case "eof":
			s.close()
			return
		case "close":
			s.send("</stream:stream>")
			s.close()
			return
		case "element", "open":
			r.After = append(r.After, u.name)
			if u.name == "iq" {
				id := attr(u.raw, "id")
				if strings.Contains(u.raw, nsBind) {
					s.send(fmt.Sprintf("<iq type='result' id='%s'><bind xmlns='%s'><jid>user@example.org/x</jid></bind></iq>", id, nsBind))
				} else {
					s.send(fmt.Sprintf("<iq type='result' id='%s'/>", id))
				}
			}
			if u.name == "enable" {
				s.send("<enabled xmlns='" + nsSM + "' id='after-failure'/>")
			}
		}
	}
}

// openStream answers a stream header. It returns false when the connection is over.
func (s *srvConn) openStream(cfg *negCfg, r *negRec, step string) bool {
	a := cfg.pick(step, "ok", "wrong-element", "garbage", "close")
	r.answer(step, a, a == "ok")
	switch a {
	case "ok":
		if len(cfg.streamIDs) > 0 {
			s.streamID = cfg.streamIDs[0]
		} else {
			s.streamID = fmt.Sprintf("sid-%d-%s", s.k, step)
		}
		// the features that follow the header may be replaced by some other well-formed element
		f := cfg.pick(step+"-features", "features", "message-instead", "sasl-success-instead", "ack-request-instead", "iq-instead", "features-with-undefined-entity")
		if f != "features" {
			r.answer(step+"-features", f, false)
		}
		switch f {
		case "features":
			s.send(s.header("jabber:client") + s.features(cfg, r))
			return true
		case "message-instead":
			s.send(s.header("jabber:client") + "<message xmlns='jabber:client' from='example.org'><body>welcome</body></message>")
		case "sasl-success-instead":
			s.send(s.header("jabber:client") + "<success xmlns='urn:ietf:params:xml:ns:xmpp-sasl'/>")
		case "ack-request-instead":
			s.send(s.header("jabber:client") + "<r xmlns='urn:xmpp:sm:3'/>")
		case "iq-instead":
			s.send(s.header("jabber:client") + "<iq xmlns='jabber:client' type='result' id='1'/>")
		case "features-with-undefined-entity":
			// the right features, not well-formed: &nbsp; is not defined in XML
			f := s.features(cfg, r)
			s.send(s.header("jabber:client") + strings.Replace(f, ">", ">&nbsp;", 1))
		}
		s.drainAfterFailureLenient(r)
		return false
	case "wrong-element":
		s.send("<?xml version='1.0'?><foo xmlns='urn:not-a-stream'>")
	case "garbage":
		// not XML at all, then the connection is closed (as an HTTP server would do);
		// a server that goes silent is outside the property's alphabet
		s.send("HTTP/1.1 400 Bad Request\r\n\r\n")
		s.close()
		return false
	case "close":
		s.close()
		return false
	}
	s.drainAfterFailure(r)
	return false
}

// negotiate serves one client connection.
func (s *srvConn) negotiate(cfg *negCfg) *negRec {
	r := &negRec{phase: "pre-auth"}
	s.serve(cfg, r)
	return r
}

func (s *srvConn) serve(cfg *negCfg, r *negRec) {
	// first header
	u := s.read()
	if u.kind == "prolog" {
		u = s.read()
	}
	if u.kind != "open" {
		if u.kind != "eof" {
			r.Order = append(r.Order, "expected stream open, got "+u.String())
		}
		s.close()
		return
	}
	if !s.openStream(cfg, r, "header1") {
		return
	}
	needOpen, pipelined := false, false
	for {
		u := s.read()
		if vrt.Killed() {
			return
		}
		if needOpen {
			if u.kind == "prolog" {
				continue
			}
			if u.kind == "eof" {
				s.close()
				return
			}
			if u.kind != "open" {
				r.Order = append(r.Order, "expected stream restart, got "+u.String())
				s.close()
				return
			}
			needOpen = false
			step := "header2"
			if r.phase == "authed" {
				step = "header3"
			}
			if pipelined {
				pipelined = false
				r.answer(step, "ok", true)
				continue
			}
			if !s.openStream(cfg, r, step) {
				return
			}
			continue
		}
		switch u.kind {
		case "eof":
			s.close()
			return
		case "close":
			s.send("</stream:stream>")
			s.close()
			return
		case "prolog":
			continue
		case "open":
			// an unrequested stream restart: note it, but answer like a lenient server would, so
			// that whatever the client does next is still observed
			r.Order = append(r.Order, "unexpected "+u.String())
			s.send(s.header("jabber:client") + s.features(cfg, r))
			continue
		case "junk":
			r.Order = append(r.Order, "unexpected "+u.String())
			s.close()
			return
		}
		// an element
		r.Requests = append(r.Requests, u.name)
		switch {
		case u.name == "starttls":
			if r.phase != "pre-auth" || s.inTLS {
				r.Order = append(r.Order, "starttls in phase "+r.phase)
			}
			a := cfg.pick("starttls", "proceed", "failure", "unexpected", "malformed", "close", "proceed-cleartext-behind")
			r.answer("starttls", a, a == "proceed")
			switch a {
			case "proceed":
				s.send("<proceed xmlns='" + nsTLS + "'/>")
				if err := s.startTLS(getFixtures().cert(cfg.cert)); err != nil {
					// the client rejected our certificate (or the handshake broke): connection over
					r.Steps = append(r.Steps, "tls-handshake=failed")
					if r.FailStep == "" {
						r.FailStep, r.FailAnswer = "tls-handshake", cfg.cert
					}
					s.close()
					return
				}
				r.TLSDone = true
				needOpen = true
				continue
			case "proceed-cleartext-behind":
				// clear text behind <proceed/> in the same segment - a stream header and features, which whoever sits on
				// the path can add, the segment not being protected yet. The server itself then does the handshake, reads
				// the client's header on the secured stream and takes its time to answer: anything the client sends
				// beyond that header, it sends without having seen the features of the secured stream.
				s.send("<proceed xmlns='" + nsTLS + "'/>" + s.header("jabber:client") + "<stream:features><mechanisms xmlns='" + nsSASL + "'><mechanism>PLAIN</mechanism></mechanisms></stream:features>")
				if err := s.startTLS(getFixtures().cert(cfg.cert)); err != nil {
					r.Steps = append(r.Steps, "tls-handshake=failed")
					s.close()
					return
				}
				r.TLSDone = true
				if u := s.read(); u.kind == "prolog" {
					s.read()
				}
				_ = s.raw.SetReadDeadline(vrt.Now().Add(2 * time.Second))
				if u := s.read(); u.kind == "element" {
					r.Order = append(r.Order, "<"+u.name+"> sent on the secured stream before the server had answered the stream header there: clear text received before the handshake was taken for the answer")
					if u.name == "auth" {
						r.AuthSeen, r.AuthInTLS = true, true
					}
				}
				s.close()
				return
			case "failure":
				s.send("<failure xmlns='" + nsTLS + "'/>")
			case "unexpected":
				s.send("<foo xmlns='urn:unexpected'/>")
			case "malformed":
				// not XML, but close to the positive answer (an unquoted attribute value): a decoder that is
				// lenient about well-formedness would take it for <proceed/>
				s.send("<proceed xmlns=" + nsTLS + "/>")
			case "close":
				s.close()
				return
			}
			s.drainAfterFailure(r)
			return
		case u.name == "auth":
			if r.phase != "pre-auth" {
				r.Order = append(r.Order, "auth in phase "+r.phase)
			}
			r.AuthSeen = true
			r.AuthRaw = u.raw
			r.AuthInTLS = s.inTLS
			r.AuthMech = attr(u.raw, "mechanism")
			if i := strings.Index(u.raw, ">"); i >= 0 {
				if j := strings.LastIndex(u.raw, "</"); j > i {
					r.AuthPayload = u.raw[i+1 : j]
				}
			}
			a := cfg.pick("auth", "success", "failure", "stream-error", "unexpected", "malformed", "truncated", "close", "success-pipelined", "success-with-data", "success-unclosed", "failure-text", "failure-expired-text", "failure-disabled")
			r.answer("auth", a, strings.HasPrefix(a, "success") && a != "success-unclosed")
			switch a {
			case "success", "success-with-data":
				if a == "success" {
					s.send("<success xmlns='" + nsSASL + "'/>")
				} else {
					// additional data with success (RFC 6120 6.4.6): "=" stands for zero-length data
					s.send("<success xmlns='" + nsSASL + "'>=</success>")
				}
				r.AuthOK = true
				r.phase = "authed"
				needOpen = true
				continue
			case "success-pipelined":
				// a server that does not wait for the client's restart header: <success/>, the new
				// stream header and the features reach the client in one segment
				r.AuthOK = true
				r.phase = "authed"
				s.streamID = fmt.Sprintf("sid-%d-header3", s.k)
				if len(cfg.streamIDs) > 0 {
					s.streamID = cfg.streamIDs[0]
				}
				s.send("<success xmlns='" + nsSASL + "'/>" + s.header("jabber:client") + s.features(cfg, r))
				needOpen = true
				pipelined = true
				continue
			case "failure":
				s.send("<failure xmlns='" + nsSASL + "'><not-authorized/></failure>")
			case "failure-text":
				// the optional descriptive text after the condition (RFC 6120 6.5), as most servers send it
				s.send("<failure xmlns='" + nsSASL + "'><not-authorized/><text xml:lang='en'>Invalid username or password</text></failure>")
			case "failure-expired-text":
				s.send("<failure xmlns='" + nsSASL + "'><credentials-expired/><text xml:lang='en'>Password expired</text></failure>")
			case "failure-disabled":
				s.send("<failure xmlns='" + nsSASL + "'><account-disabled/></failure>")
			case "stream-error":
				s.send("<stream:error><host-unknown xmlns='urn:ietf:params:xml:ns:xmpp-streams'/></stream:error>")
			case "unexpected":
				s.send("<message xmlns='jabber:client'><body>x</body></message>")
			case "malformed":
				s.send("<success xmlns=" + nsSASL + "/>") // unquoted attribute value
				s.drainAfterFailureLenient(r)
				return
			case "success-unclosed":
				s.send("<success xmlns='" + nsSASL + "'>")
				s.close()
				return
			case "truncated":
				s.send("<success xmlns='urn:ietf:params:xml:ns:xmpp-sa")
				s.close()
				return
			case "close":
				s.close()
				return
			}
			s.drainAfterFailure(r)
			return
		case u.name == "resume":
			if r.phase != "authed" || r.BindSeen > 0 {
				r.Order = append(r.Order, "resume in phase "+r.phase)
			}
			r.ResumeSeen = append(r.ResumeSeen, u.raw)
			prev := attr(u.raw, "previd")
			a := cfg.pick("resume", "resumed-same", "resumed-other", "failed", "failed-known-condition", "failed-no-condition", "unexpected", "close", "resumed-unclosed")
			r.answer("resume", a, a == "resumed-same" || strings.HasPrefix(a, "failed"))
			switch a {
			case "resumed-same":
				s.send(fmt.Sprintf("<resumed xmlns='%s' previd='%s' h='%d'/>", nsSM, prev, cfg.resumedH))
				r.Resumed = true
				r.Established = true
				if cfg.established != nil {
					cfg.established(s, r)
				} else {
					s.idleSession(r)
				}
				return
			case "failed":
				// a refusal is a legal outcome: the client must now bind a fresh session
				s.send(fmt.Sprintf("<failed xmlns='%s'><item-not-found xmlns='urn:ietf:params:xml:ns:xmpp-stanzas'/></failed>", nsSM))
				continue
			case "failed-no-condition":
				s.send(fmt.Sprintf("<failed xmlns='%s' h='0'/>", nsSM))
				continue
			case "failed-known-condition":
				s.send(fmt.Sprintf("<failed xmlns='%s'><unexpected-request xmlns='urn:ietf:params:xml:ns:xmpp-stanzas'/></failed>", nsSM))
				continue
			case "resumed-other":
				s.send(fmt.Sprintf("<resumed xmlns='%s' previd='%s-other' h='0'/>", nsSM, prev))
			case "resumed-unclosed":
				// the start tag of the positive answer, complete, and then the connection ends inside the element
				s.send(fmt.Sprintf("<resumed xmlns='%s' previd='%s' h='0'>", nsSM, prev))
				s.close()
				return
			case "unexpected":
				s.send("<message xmlns='jabber:client'><body>x</body></message>")
			case "close":
				s.close()
				return
			}
			s.drainAfterFailure(r)
			return
		case u.name == "iq" && strings.Contains(u.raw, nsBind):
			if r.phase != "authed" || r.BindSeen > 0 {
				r.Order = append(r.Order, "bind in phase "+r.phase)
			}
			r.BindSeen++
			id := attr(u.raw, "id")
			a := cfg.pick("bind", "result", "result-no-bind", "error-echo", "error-bare", "other-stanza", "malformed", "close")
			r.answer("bind", a, a == "result")
			switch a {
			case "result":
				jid := cfg.jid
				if jid == "" {
					jid = "user@" + cfg.domain + "/srv-res"
				}
				s.send(fmt.Sprintf("<iq type='result' id='%s'><bind xmlns='%s'><jid>%s</jid></bind></iq>", id, nsBind, jid))
				r.BindOK = true
				r.phase = "bound"
				if s.settled() {
					s.enterEstablished(cfg, r)
					return
				}
				continue
			case "result-no-bind":
				s.send(fmt.Sprintf("<iq type='result' id='%s'/>", id))
			case "error-echo":
				s.send(fmt.Sprintf("<iq type='error' id='%s'><bind xmlns='%s'/><error type='cancel'><conflict xmlns='urn:ietf:params:xml:ns:xmpp-stanzas'/></error></iq>", id, nsBind))
			case "error-bare":
				s.send(fmt.Sprintf("<iq type='error' id='%s'><error type='modify'><bad-request xmlns='urn:ietf:params:xml:ns:xmpp-stanzas'/></error></iq>", id))
			case "other-stanza":
				s.send("<message xmlns='jabber:client'><body>x</body></message>")
			case "malformed":
				// the result, with a <jid> that is never closed
				s.send(fmt.Sprintf("<iq type='result' id='%s'><bind xmlns='%s'><jid>user@example.org/x</bind></iq>", id, nsBind))
				s.drainAfterFailureLenient(r)
				return
			case "close":
				s.close()
				return
			}
			s.drainAfterFailure(r)
			return
		case u.name == "iq" && strings.Contains(u.raw, nsSess):
			if r.phase != "bound" || r.SessionSeen > 0 {
				r.Order = append(r.Order, "session in phase "+r.phase)
			}
			if cfg.session == "absent" {
				r.Order = append(r.Order, "session requested although this stream's features do not offer it")
			}
			r.SessionSeen++
			id := attr(u.raw, "id")
			a := cfg.pick("session", "result", "error", "malformed", "close", "other-stanza", "stream-error", "iq-get", "features")
			r.answer("session", a, a == "result")
			switch a {
			case "result":
				s.send(fmt.Sprintf("<iq type='result' id='%s'/>", id))
				r.SessionOK = true
				if s.settled() {
					s.enterEstablished(cfg, r)
					return
				}
				continue
			case "error":
				s.send(fmt.Sprintf("<iq type='error' id='%s'><error type='wait'><internal-server-error xmlns='urn:ietf:params:xml:ns:xmpp-stanzas'/></error></iq>", id))
			case "malformed":
				s.send(fmt.Sprintf("<iq type=result id='%s'/>", id)) // unquoted attribute value
			case "close":
				s.close()
				return
			case "other-stanza":
				s.send("<message xmlns='jabber:client' from='example.org'><body>x</body></message>")
			case "stream-error":
				s.send("<stream:error><internal-server-error xmlns='urn:ietf:params:xml:ns:xmpp-streams'/></stream:error>")
			case "iq-get":
				s.send(fmt.Sprintf("<iq type='get' id='%s' from='example.org'><ping xmlns='urn:xmpp:ping'/></iq>", id))
			case "features":
				s.send("<stream:features/>")
			}
			s.drainAfterFailureLenient(r)
			return
		case u.name == "enable":
			if r.phase != "bound" || r.EnableSeen > 0 {
				r.Order = append(r.Order, "enable in phase "+r.phase)
			}
			if cfg.session == "mandatory" && r.SessionSeen == 0 {
				r.Order = append(r.Order, "enable before the mandatory session request")
			}
			if !cfg.sm {
				r.Order = append(r.Order, "enable requested although this stream's features do not offer stream management")
			}
			r.EnableSeen++
			a := cfg.pick("enable", "enabled-resume-true", "enabled-resume-false", "enabled-no-resume", "failed", "failed-no-condition", "unexpected", "close", "malformed", "enabled-unclosed", "enabled-resume-true-no-id", "enabled-resume-true-empty-id", "enabled-id-no-resume", "enabled-id-resume-false")
			ok := strings.HasPrefix(a, "enabled") && a != "enabled-unclosed"
			r.answer("enable", a, ok)
			r.EnableAnswer = a
			id := cfg.smID
			if id == "" {
				id = fmt.Sprintf("sm-%d", s.k)
			}
			switch a {
			case "enabled-resume-true":
				s.send(fmt.Sprintf("<enabled xmlns='%s' id='%s' resume='true'/>", nsSM, id))
			case "enabled-resume-false":
				s.send(fmt.Sprintf("<enabled xmlns='%s' resume='false'/>", nsSM))
			case "enabled-no-resume":
				s.send(fmt.Sprintf("<enabled xmlns='%s'/>", nsSM))
			case "enabled-id-no-resume":
				// an id, and resumption not granted (no resume attribute / resume='false')
				s.send(fmt.Sprintf("<enabled xmlns='%s' id='%s'/>", nsSM, id))
			case "enabled-id-resume-false":
				s.send(fmt.Sprintf("<enabled xmlns='%s' id='%s' resume='false'/>", nsSM, id))
			case "enabled-resume-true-no-id":
				// resumption allowed, and no id to resume with: there is nothing to present later
				s.send(fmt.Sprintf("<enabled xmlns='%s' resume='true'/>", nsSM))
			case "enabled-resume-true-empty-id":
				s.send(fmt.Sprintf("<enabled xmlns='%s' id='' resume='1'/>", nsSM))
			case "failed":
				s.send(fmt.Sprintf("<failed xmlns='%s'><unexpected-request xmlns='urn:ietf:params:xml:ns:xmpp-stanzas'/></failed>", nsSM))
			case "failed-no-condition":
				s.send(fmt.Sprintf("<failed xmlns='%s'/>", nsSM))
			case "unexpected":
				s.send("<message xmlns='jabber:client'><body>x</body></message>")
			case "enabled-unclosed":
				s.send(fmt.Sprintf("<enabled xmlns='%s' id='%s' resume='true'>", nsSM, id))
				s.close()
				return
			case "malformed":
				// the positive answer with an end tag that does not match
				s.send(fmt.Sprintf("<enabled xmlns='%s' id='%s' resume='true'></enable>", nsSM, id))
			case "close":
				s.close()
				return
			}
			if ok {
				r.EnableOK = true
				if s.settled() {
					s.enterEstablished(cfg, r)
					return
				}
				continue
			}
			s.drainAfterFailure(r)
			return
		default:
			// first ordinary stanza: the client considers the session established
			if r.phase != "bound" {
				r.Order = append(r.Order, "stanza <"+u.name+"> in phase "+r.phase)
			}
			r.Established = true
			if cfg.established != nil {
				s.pending = append(s.pending, u)
				cfg.established(s, r)
			} else {
				s.idleSession(r)
			}
			return
		}
	}
}

// settled reports whether the client has gone quiet after a successful answer: the
// whole system is idle and nothing more was written, i.e. the client regards the
// negotiation as complete (plain connections only).
func (s *srvConn) settled() bool {
	if s.inTLS {
		return false
	}
	vrt.WaitIdle()
	return len(s.sp.buf) == 0 && s.raw.Buffered() == 0 && !vrt.Killed()
}

func (s *srvConn) enterEstablished(cfg *negCfg, r *negRec) {
	r.Established = true
	if cfg.established != nil {
		cfg.established(s, r)
	} else {
		s.idleSession(r)
	}
}

// idleSession keeps the connection open, answering only the stream close.
func (s *srvConn) idleSession(r *negRec) {
	for {
		u := s.read()
		switch u.kind {
		case "eof":
			s.close()
			return
		case "close":
			s.send("</stream:stream>")
			s.close()
			return
		}
	}
}

// listen installs a listener whose k-th connection is served with cfgFor(k); a nil
// cfg refuses the dial. The records are appended to *recs in dial order.
func listen(w *vnet.World, address string, cfgFor func(k int) *negCfg, recs *[]*negRec, conns *[]*srvConn) *vnet.Listener {
	return w.Listen(address, &vnet.Listener{Accept: func(k int, c *vnet.Conn) (func(), error) {
		cfg := cfgFor(k)
		if cfg == nil {
			return nil, vnet.ErrRefused
		}
		sc := newSrvConn(k, c)
		if conns != nil {
			*conns = append(*conns, sc)
		}
		r := &negRec{phase: "pre-auth"}
		*recs = append(*recs, r)
		return func() { sc.serve(cfg, r) }, nil
	}})
}
