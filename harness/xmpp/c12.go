//go:build verif

package xmpp

import (
	"errors"
	"fmt"
	"os"
	"regexp"
	"strings"
	"testing"
	"time"

	"gosrc.io/xmpp/stanza"

	"verif/hx"
	"verif/vnet"
	"verif/vrt"
)

// C12: a lost connection is reported exactly once at every cut point; nothing leaks.

var c12alphabet = []struct {
	name   string
	wire   string
	routed string
}{
	{"message", "<message from='peer@example.org/x' id='m1' type='chat'><body>a &amp; b &#x27;q&#x27;</body></message>", "message:m1"},
	{"presence", "<presence from='peer@example.org/x' id='p1'><show>away</show></presence>", "presence:p1"},
	{"iq", "<iq from='example.org' id='q1' type='result'><query xmlns='jabber:iq:roster'/></iq>", "iq:q1:result"},
	{"r", "<r xmlns='urn:xmpp:sm:3'/>", ""},
}

var libSite = regexp.MustCompile(`^[a-z_]+\.go:\d+$`)

func c12body(seq []int, sm bool, writeFails bool, reset bool, mode string) func() {
	return func() {
		vrt.Quiet(true)
		var stream strings.Builder
		var ends []int // byte offset at which each element is complete
		var names []string
		uniq := func(x string, i int) string { // distinct ids per position
			for _, id := range []string{"m1", "p1", "q1"} {
				x = strings.ReplaceAll(x, id, fmt.Sprintf("%s%d", id[:1], i))
			}
			return x
		}
		for i, k := range seq {
			stream.WriteString(uniq(c12alphabet[k].wire, i))
			ends = append(ends, stream.Len())
			names = append(names, c12alphabet[k].name)
		}
		full := stream.String()
		cut := vrt.ChooseFree("cut", len(full)+1)
		// mode "handler-waits": the handlers of inbound stanzas block until the disconnection has been
		// reported (an application that cleans up on the Disconnected event).
		// mode "second-connection": the connection under test is the second one of the same client.
		// mode "cut-on-tick": the keepalive interval is 7 s and the connection is cut at exactly 7 s: the keepalive
		// goroutine is woken by its ticker at the moment the receive loop learns of the loss
		ka := int64(3600)
		if mode == "cut-on-tick" {
			ka = 7
		}
		so := sessOpts{sm: sm, smResume: sm, keepalive: ka, noCatchAll: mode == "handler-waits"}
		if mode == "sm-no-resume" {
			// the server enables stream management and does not grant resumption (an id, no resume attribute): the
			// session is stream-managed all the same, and its state is what the Disconnected event carries
			so.enableAns = "enabled-id-no-resume"
		}
		if mode == "resumed-after-failed-attempt" {
			// the connection under test is the third one: the first was lost, the second attempt was cut by the
			// server in the middle of the negotiation (the client gives that attempt up and closes it itself), the
			// third succeeded through Resume()
			so.serverCfg = func(k int, c *negCfg) {
				if k == 1 {
					inner := c.pick
					c.pick = func(step string, alts ...string) string {
						if step == "auth" {
							return "close"
						}
						return inner(step, alts...)
					}
				}
			}
		}
		s := newSess(so)
		if s.cl == nil {
			return
		}
		disconnected := make(chan struct{})
		discClosed := false
		if mode == "handler-waits" {
			s.router.NewRoute().HandlerFunc(func(_ Sender, p stanza.Packet) {
				d := describePacket(p)
				s.routed = append(s.routed, d)
				vrt.Log("routed %s (handler now waits for the disconnection)", d)
				vrt.Recv((<-chan struct{})(disconnected))
			})
			prev := s.cl.Handler
			s.cl.SetHandler(func(e Event) error {
				if prev != nil {
					prev(e)
				}
				if e.State.state == StateDisconnected && !discClosed {
					discClosed = true
					vrt.Close(disconnected)
				}
				return nil
			})
		}
		if mode == "logger-eof-with-data" {
			// the traffic logger sits in the read path
			f, err := os.CreateTemp("", "verif-c12-*.log")
			if err != nil {
				vrt.Fail("C12|harness|tempfile", "%v", err)
				return
			}
			defer func() { f.Close(); os.Remove(f.Name()) }()
			s.cl.transport.LogTraffic(f)
		}
		resumedFromHandler := false
		var resumeErr error
		if mode == "reconnected-from-handler" {
			// the connection under test was established from inside the Disconnected handler of the previous
			// one (what StreamManager does): the previous receive loop is still unwinding when it starts
			prev := s.cl.Handler
			s.cl.SetHandler(func(e Event) error {
				if prev != nil {
					prev(e)
				}
				if e.State.state == StateDisconnected && !resumedFromHandler {
					resumedFromHandler = true
					resumeErr = s.cl.Resume()
				}
				return nil
			})
		}
		if err := s.cl.Connect(); err != nil {
			vrt.Fail("C12|harness|connect", "%v", err)
			return
		}
		vrt.WaitIdle()
		connIdx := 0
		if mode == "resumed-after-failed-attempt" {
			s.conn(0).close()
			vrt.WaitIdle()
			if err := s.cl.Resume(); err == nil {
				vrt.Fail("C12|harness|attempt-did-not-fail", "the attempt cut by the server at the auth step did not fail")
				return
			}
			vrt.WaitIdle()
			if err := s.cl.Resume(); err != nil {
				vrt.Fail("C12|harness|reconnect", "%v", err)
				return
			}
			vrt.WaitIdle()
			connIdx = 2
		}
		if mode == "reconnected-from-handler" {
			s.conn(0).close()
			vrt.WaitIdle()
			if !resumedFromHandler || resumeErr != nil {
				vrt.Fail("C12|harness|reconnect", "Resume from the handler: called=%v err=%v", resumedFromHandler, resumeErr)
				return
			}
			connIdx = 1
		}
		if mode == "second-connection" || mode == "second-connection-after-parse-error" {
			if mode == "second-connection-after-parse-error" {
				// the first session ends on an element the client cannot accept, with more data right behind it in
				// the same segment: nothing of that may be left over for the next stream
				s.conn(0).send("<notice xmlns='urn:example:unknown'/><message from='peer@example.org' id='stale'><body>left over</body></message><presence from='peer@example.org' id='stale2'/>")
				vrt.WaitIdle()
			}
			s.conn(0).close()
			vrt.WaitIdle()
			if err := s.cl.Connect(); err != nil {
				if mode == "second-connection-after-parse-error" {
					vrt.Fail("C12|reconnect-fails-after-parse-error", "the session before ended on an unacceptable element followed by more data; connecting again failed: %v", err)
				} else {
					vrt.Fail("C12|harness|reconnect", "%v", err)
				}
				return
			}
			vrt.WaitIdle()
			connIdx = 1
		}
		conn := s.conn(connIdx)
		if conn == nil {
			vrt.Fail("C12|harness|no-connection", "connection %d missing", connIdx)
			return
		}
		conn.drainNew()
		nErr0, nEv0 := len(s.errs), len(s.events)
		if writeFails {
			conn.raw.Peer().WriteFault = func(c *vnet.Conn, p []byte) (int, error) {
				if c.PeerClosed() {
					return 0, errors.New("write: broken pipe")
				}
				return -1, nil
			}
		}
		if mode == "cut-on-tick" {
			vrt.Sleep(7*time.Second - vrt.VNow())
		}
		vrt.Quiet(false)
		if cut > 0 {
			conn.send(full[:cut])
		}
		if strings.HasSuffix(mode, "eof-with-data") {
			// the read that returns the last bytes reports the end of the connection at the same time
			conn.raw.Peer().EOFWithData = true
		}
		if reset {
			// the loss shows up as a read error (connection reset), not as an orderly end of stream
			conn.closed = true
			conn.raw.Reset()
		} else {
			conn.close()
		}
		vrt.WaitIdle()
		vrt.Quiet(true)
		if mode == "cut-on-tick" {
			// a keepalive that is still running would show itself within a few intervals
			vrt.Sleep(30 * time.Second)
			vrt.WaitIdle()
		}
		// --- oracle
		where := "between-elements"
		complete := 0
		for i, e := range ends {
			if cut >= e {
				complete = i + 1
			}
		}
		if cut > 0 && (complete == 0 || ends[complete-1] != cut) {
			where = "inside-" + names[complete]
		}
		if cut == 0 {
			where = "before-first-byte"
		}
		lastComplete := "none"
		if complete > 0 {
			lastComplete = names[complete-1]
		}
		ctx := fmt.Sprintf("inbound %v cut at byte %d of %d (%s, last complete element: %s) sm=%v write-after-cut-fails=%v reset=%v", names, cut, len(full), where, lastComplete, sm, writeFails, reset)
		key := fmt.Sprintf("|cut=%s|last=%s|writefails=%v|reset=%v", strings.SplitN(where, "-", 2)[0], lastComplete, writeFails, reset)
		if mode != "" {
			key += "|" + mode
			ctx += " mode=" + mode
		}
		nErr, nEv := len(s.errs)-nErr0, 0
		var smOK = true
		evInbound := -1
		for _, ev := range s.events[nEv0:] {
			if ev.State.state == StateDisconnected {
				nEv++
				evInbound = int(ev.SMState.Inbound)
				if sm && ev.SMState.Id != "smid-0" && ev.SMState.Id != fmt.Sprintf("smid-%d", connIdx) {
					smOK = false
				}
			}
		}
		if nErr != 1 {
			vrt.Fail("C12|error-callback-count"+key, "%s: error callback ran %d times (errors %v)", ctx, nErr, s.errs[nErr0:])
		}
		if nEv != 1 {
			vrt.Fail("C12|disconnected-event-count"+key, "%s: %d Disconnected events", ctx, nEv)
		} else if !smOK {
			vrt.Fail("C12|disconnected-without-sm-state", "%s: the Disconnected event does not carry the stream-management state", ctx)
		} else if sm && (mode == "" || mode == "sm-no-resume") {
			// the state it carries counts the stanzas of this (first) session that were completely received
			wantIn := 0
			for i := 0; i < complete; i++ {
				if c12alphabet[seq[i]].routed != "" {
					wantIn++
				}
			}
			if evInbound != wantIn {
				vrt.Fail("C12|event-sm-state-count"+key, "%s: the Disconnected event carries an inbound count of %d, %d stanzas were completely received", ctx, evInbound, wantIn)
			}
		}
		for i := 0; i < complete; i++ {
			want := uniq(c12alphabet[seq[i]].routed, i)
			if want == "" {
				continue
			}
			n := 0
			for _, r := range s.routed {
				if r == want {
					n++
				}
			}
			if n != 1 {
				vrt.Fail("C12|complete-stanza-routed-"+fmt.Sprint(n)+"-times|cut="+strings.SplitN(where, "-", 2)[0], "%s: %s was completely received but routed %d times (routed %v)", ctx, want, n, s.routed)
			}
		}
		for i := complete; i < len(seq); i++ {
			if want := uniq(c12alphabet[seq[i]].routed, i); want != "" {
				for _, r := range s.routed {
					if r == want {
						vrt.Fail("C12|incomplete-stanza-routed", "%s: %s was cut but routed", ctx, want)
					}
				}
			}
		}
		var leaked []string
		for _, a := range vrt.Alive() {
			if libSite.MatchString(a.Site) {
				leaked = append(leaked, a.Site+"@"+a.Op)
			}
		}
		if len(leaked) > 0 {
			site := strings.SplitN(leaked[0], "@", 2)[0]
			vrt.Fail("C12|goroutine-left-behind|"+site+key, "%s: library goroutines still alive after the loss was handled: %v", ctx, leaked)
		}
		vrt.Log("cut=%d errs=%d ev=%d routed=%v", cut, nErr, nEv, s.routed)
	}
}

func c12verdict(e *vrt.Exec) {
	if e.Panic != nil {
		vrt.Fail("C12|panic", "panic in T%d (%s): %s <- %s", e.Panic.Thread, e.Panic.Site, e.Panic.Value, trimStack(e.Panic.Stack))
	} else if e.Deadlock || e.HorizonHit {
		vrt.Fail("C12|hang", "deadlock=%v horizon=%v: %s", e.Deadlock, e.HorizonHit, e.BlockedSummary())
	}
}

func TestVerifC12(t *testing.T) {
	bound := 0
	maxLen := 2
	if hx.Thorough() {
		bound = 1
		maxLen = 3
	}
	var seqs [][]int
	var rec func(p []int)
	rec = func(p []int) {
		if len(p) > 0 {
			seqs = append(seqs, append([]int{}, p...))
		}
		if len(p) == maxLen {
			return
		}
		for k := range c12alphabet {
			rec(append(p, k))
		}
	}
	rec(nil)
	var scs []hx.Scenario
	for _, q := range seqs {
		for _, sm := range []bool{false, true} {
			for _, wf := range []bool{false, true} {
				var n []string
				for _, k := range q {
					n = append(n, c12alphabet[k].name)
				}
				for _, rst := range []bool{false, true} {
					scs = append(scs, hx.Scenario{Name: fmt.Sprintf("seq=%s/sm=%v/writefails=%v/reset=%v", strings.Join(n, ","), sm, wf, rst),
						Opt: vrt.Options{Bound: bound, Horizon: 100000}, Body: c12body(q, sm, wf, rst, ""), Verdict: c12verdict})
				}
				if !wf && len(q) <= 2 {
					scs = append(scs, hx.Scenario{Name: fmt.Sprintf("seq=%s/sm=%v/mode=cut-on-tick", strings.Join(n, ","), sm),
						Opt: vrt.Options{Bound: 1, Horizon: 100000}, Body: c12body(q, sm, false, false, "cut-on-tick"), Verdict: c12verdict})
					if sm {
						scs = append(scs, hx.Scenario{Name: fmt.Sprintf("seq=%s/sm=%v/mode=sm-no-resume", strings.Join(n, ","), sm),
							Opt: vrt.Options{Bound: bound, Horizon: 100000}, Body: c12body(q, sm, false, false, "sm-no-resume"), Verdict: c12verdict})
					}
					for _, mode := range []string{"handler-waits", "second-connection", "second-connection-after-parse-error", "reconnected-from-handler", "resumed-after-failed-attempt", "eof-with-data", "logger-eof-with-data"} {
						scs = append(scs, hx.Scenario{Name: fmt.Sprintf("seq=%s/sm=%v/mode=%s", strings.Join(n, ","), sm, mode),
							Opt: vrt.Options{Bound: bound, Horizon: 100000}, Body: c12body(q, sm, false, false, mode), Verdict: c12verdict})
					}
				}
			}
		}
	}
	if hx.Main("C12", scs) == 2 {
		t.Fatal("internal error")
	}
}
