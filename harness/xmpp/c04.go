//go:build verif

package xmpp

import (
	"bytes"
	"crypto/tls"
	"fmt"
	"os"
	"path/filepath"
	"testing"
	"time"

	"verif/hx"
	"verif/vnet"
	"verif/vrt"
)

// C04: no credentials or stanzas without verified TLS unless insecure mode is requested.

type c04cfg struct {
	insecure   bool
	tlsMode    string // default-roots | custom-roots | skip-verify
	serverName string // "" | domain | other
	starttls   string // absent | offered | required
	cert       string // valid | wrong-host | unknown-issuer | expired
	reconnect  bool
	// earlier: another client of the same process, for another domain (other.example, whose server holds a certificate
	// valid for that name only) and sharing the application's *tls.Config, connects first: whatever the library keeps
	// between connections - a prepared configuration, a session cache, a verified name - belongs to that domain
	earlier bool
	// appSender: a goroutine of the application calls SendRaw while the connection under test is being made (the
	// library documents no restriction on when Send may be called, and with a StreamManager the application does not
	// even know that a reconnection is going on)
	appSender bool
}

func (c c04cfg) name() string {
	n := fmt.Sprintf("insecure=%v/tls=%s/servername=%s/starttls=%s/cert=%s/reconnect=%v", c.insecure, c.tlsMode, c.serverName, c.starttls, c.cert, c.reconnect)
	if c.earlier {
		n += "/earlier=other-domain"
	}
	if c.appSender {
		n += "/app-sender"
	}
	return n
}

var c04sensitive = []string{"<auth", "<iq", "<presence", "<message", "<enable", "<resume"}

func c04body(sc c04cfg) func() {
	return func() {
		w := vnet.NewWorld()
		var recs []*negRec
		var conns []*srvConn
		drop := false
		last := 0
		if sc.reconnect {
			last = 1
		}
		listen(w, "example.org:5222", func(k int) *negCfg {
			n := &negCfg{domain: "example.org", starttls: sc.starttls, cert: sc.cert, mechs: []string{"PLAIN"}, session: "absent", pick: func(step string, alts ...string) string {
				if step == "starttls" {
					return explorePick(step, alts...)
				}
				return alts[0]
			}}
			if k < last {
				n.pick, n.starttls, n.cert = defaultPick, "required", "valid"
				n.established = func(s *srvConn, r *negRec) {
					vrt.Block("srv: wait for drop", func() bool { return drop })
					s.close()
				}
			}
			if k > last {
				return nil
			}
			return n
		}, &recs, &conns)
		var tc *tls.Config
		switch sc.tlsMode {
		case "custom-roots":
			tc = &tls.Config{RootCAs: getFixtures().caPool}
		case "skip-verify":
			tc = &tls.Config{InsecureSkipVerify: true}
		}
		switch sc.serverName {
		case "domain":
			if tc == nil {
				tc = &tls.Config{}
			}
			tc.ServerName = "example.org"
		case "other":
			if tc == nil {
				tc = &tls.Config{}
			}
			tc.ServerName = "other.example"
		}
		cfg := &Config{
			TransportConfiguration: TransportConfiguration{Address: "example.org:5222", Domain: "example.org", TLSConfig: tc},
			Jid:                    "user@example.org/r",
			Credential:             Password("secret"),
			Insecure:               sc.insecure,
		}
		if sc.earlier {
			var recs0 []*negRec
			var conns0 []*srvConn
			listen(w, "other.example:5222", func(k int) *negCfg {
				if k > 0 {
					return nil
				}
				return &negCfg{domain: "other.example", starttls: "required", cert: "wrong-host", mechs: []string{"PLAIN"}, session: "absent", pick: defaultPick}
			}, &recs0, &conns0)
			cfg0 := &Config{
				TransportConfiguration: TransportConfiguration{Address: "other.example:5222", Domain: "other.example", TLSConfig: tc},
				Jid:                    "user@other.example/r",
				Credential:             Password("secret0"),
				Insecure:               sc.insecure,
			}
			if cl0, err := NewClient(cfg0, NewRouter(), func(error) {}); err == nil {
				if err := cl0.Connect(); err == nil {
					cl0.Disconnect()
				} else if sc.serverName == "" {
					vrt.Fail("C04|harness|earlier-connection", "the earlier client, whose server holds a certificate valid for its domain, failed: %v", err)
					return
				}
				vrt.WaitIdle()
			}
		}
		cl, err := NewClient(cfg, NewRouter(), func(error) {})
		if err != nil {
			vrt.Fail("C04|harness|newclient", "%v", err)
			return
		}
		fromHandler := false
		var handlerErr error
		appSender := func() {
			for i := 0; i < 3; i++ {
				_ = cl.SendRaw("<message to='a@example.org'><body>from the application</body></message>")
				vrt.Sleep(time.Millisecond)
			}
		}
		if sc.reconnect {
			if err := cl.Connect(); err != nil {
				vrt.Fail("C04|harness|first-connection", "the all-valid first connection failed: %v", err)
				return
			}
			if sc.appSender {
				// the sender is already at work when the first connection is lost, and the reconnection is made from
				// the Disconnected handler as a StreamManager makes it: nothing waits for the sender to be done
				srvSkipApp = true
				cl.SetHandler(func(e Event) error {
					if e.State.state == StateDisconnected && !fromHandler {
						fromHandler = true
						handlerErr = cl.Resume()
					}
					return nil
				})
				vrt.Go("app-sender", appSender)
			}
			drop = true
			vrt.WaitIdle()
		}
		srvSkipApp = sc.appSender
		if sc.appSender && !sc.reconnect {
			vrt.Go("app-sender", appSender)
		}
		if fromHandler {
			err = handlerErr
		} else {
			err = cl.Connect()
		}
		vrt.Log("connect ok=%v", err == nil)
		if err == nil {
			_ = cl.SendRaw("<message to='a@example.org'><body>hello</body></message>")
			cl.Disconnect()
		}
		vrt.WaitIdle()
		if len(conns) <= last {
			vrt.Fail("C04|harness|no-connection", "connection under test never dialled")
			return
		}
		conn, rec := conns[last], recs[last]
		// --- monitor predicate
		verified := sc.tlsMode == "skip-verify" || sc.cert == "valid"
		var raw bytes.Buffer
		for _, r := range *conn.raw.Peer().Log {
			if r.ToSrv {
				raw.Write(r.Data)
			}
		}
		// what the client wrote in clear: everything up to its first TLS record (a handshake record, 0x16 0x03 ..,
		// after its <starttls/> request). The records themselves are opaque: searching cipher text for the
		// sensitive element names would, once in a few thousand executions, find "<iq" by chance.
		var clear bytes.Buffer
		clear.Write(raw.Bytes())
		if i := bytes.Index(raw.Bytes(), []byte("<starttls")); i >= 0 {
			if j := bytes.Index(raw.Bytes()[i:], []byte{0x16, 0x03}); j >= 0 {
				clear.Truncate(i + j)
			}
		}
		ctx := fmt.Sprintf("%s, server steps %v", sc.name(), rec.Steps)
		for _, kw := range c04sensitive {
			if bytes.Contains(clear.Bytes(), []byte(kw)) && !sc.insecure {
				k := "C04|cleartext-" + kw[1:] + "|starttls=" + sc.starttls + "|reconnect=" + fmt.Sprint(sc.reconnect)
				if sc.appSender {
					k += "|app-sender"
				}
				vrt.Fail(k, "%s: %q written in clear text although insecure connections were not allowed", ctx, kw)
			}
		}
		for _, u := range conn.Units {
			if !u.tls || u.kind != "element" {
				continue
			}
			for _, kw := range c04sensitive {
				if "<"+u.name == kw && !verified {
					vrt.Fail("C04|tls-unverified-"+u.name+"|cert="+sc.cert+"|tls="+sc.tlsMode+"|servername="+sc.serverName, "%s: <%s> sent over TLS although the certificate (%s) does not validate for the domain", ctx, u.name, sc.cert)
				}
			}
		}
		// sanity of the harness itself: with everything valid and TLS offered the connection must work
		if sc.cert == "valid" && sc.starttls != "absent" && sc.serverName != "other" && rec.FailStep == "" && err != nil && !sc.appSender {
			// (bytes that the application writes into the middle of a handshake may well make it fail)
			vrt.Fail("C04|valid-tls-rejected|tls="+sc.tlsMode+"|servername="+sc.serverName, "%s: Connect failed: %v", ctx, err)
		}
		vrt.Log("steps %v tlsdone=%v", rec.Steps, rec.TLSDone)
	}
}

func c04verdict(e *vrt.Exec) {
	if e.Panic != nil {
		vrt.Fail("C04|panic", "panic in T%d (%s): %s <- %s", e.Panic.Thread, e.Panic.Site, e.Panic.Value, trimStack(e.Panic.Stack))
	} else if e.Deadlock || e.HorizonHit {
		vrt.Fail("C04|hang", "deadlock=%v horizon=%v: %s", e.Deadlock, e.HorizonHit, e.BlockedSummary())
	}
}

func TestVerifC04(t *testing.T) {
	// default trust store = the fixture CA: must be in place before the first certificate verification
	dir, err := os.MkdirTemp("", "verif-c04-")
	if err != nil {
		t.Fatal(err)
	}
	defer os.RemoveAll(dir)
	caFile := filepath.Join(dir, "ca.pem")
	if err := os.WriteFile(caFile, getFixtures().caPEM, 0644); err != nil {
		t.Fatal(err)
	}
	os.Setenv("SSL_CERT_FILE", caFile)
	os.Setenv("SSL_CERT_DIR", dir)
	var scs []hx.Scenario
	for _, insecure := range []bool{false, true} {
		for _, tm := range []string{"default-roots", "custom-roots", "skip-verify"} {
			for _, sn := range []string{"", "domain", "other"} {
				for _, st := range []string{"absent", "offered", "required"} {
					for _, cert := range []string{"valid", "wrong-host", "unknown-issuer", "expired"} {
						if st == "absent" && cert != "valid" {
							continue
						}
						sc := c04cfg{insecure: insecure, tlsMode: tm, serverName: sn, starttls: st, cert: cert}
						scs = append(scs, hx.Scenario{Name: sc.name(), Opt: vrt.Options{Bound: thoroughBound(2)}, Body: c04body(sc), Verdict: c04verdict})
					}
				}
			}
		}
		// after another client of the same process, for another domain, sharing the TLS configuration object
		for _, tm := range []string{"default-roots", "custom-roots", "skip-verify"} {
			for _, sn := range []string{"", "other"} {
				for _, st := range []string{"offered", "required"} {
					for _, cert := range []string{"valid", "wrong-host"} {
						sc := c04cfg{insecure: insecure, tlsMode: tm, serverName: sn, starttls: st, cert: cert, earlier: true}
						scs = append(scs, hx.Scenario{Name: sc.name(), Opt: vrt.Options{Bound: thoroughBound(2)}, Body: c04body(sc), Verdict: c04verdict})
					}
				}
			}
		}
		// a goroutine of the application sending while the connection is made
		if !insecure {
			for _, rc := range []bool{false, true} {
				for _, st := range []string{"offered", "required"} {
					sc := c04cfg{tlsMode: "custom-roots", starttls: st, cert: "valid", reconnect: rc, appSender: true}
					scs = append(scs, hx.Scenario{Name: sc.name(), Opt: vrt.Options{Bound: thoroughBound(2)}, Body: c04body(sc), Verdict: c04verdict})
				}
			}
		}
		// reconnect after a verified TLS session
		for _, tm := range []string{"default-roots", "custom-roots"} {
			for _, st := range []string{"absent", "offered", "required"} {
				for _, cert := range []string{"valid", "wrong-host", "unknown-issuer", "expired"} {
					if st == "absent" && cert != "valid" {
						continue
					}
					sc := c04cfg{insecure: insecure, tlsMode: tm, starttls: st, cert: cert, reconnect: true}
					scs = append(scs, hx.Scenario{Name: sc.name(), Opt: vrt.Options{Bound: thoroughBound(2)}, Body: c04body(sc), Verdict: c04verdict})
				}
			}
		}
	}
	scs = append(scs, c04wsScenarios()...)
	if hx.Main("C04", scs) == 2 {
		t.Fatal("internal error")
	}
}
