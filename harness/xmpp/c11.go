//go:build verif

package xmpp

import (
	"fmt"
	"strconv"
	"strings"
	"testing"

	"gosrc.io/xmpp/stanza"
	"verif/hx"
	"verif/vrt"
)

// C11: resume only with the previous id and count; drop stale state.
// Explicit-state search over connection histories: each connection is a real
// negotiation on the virtual network; a reference machine (id, count) predicts what
// the client may write.

type c11conn struct {
	smAdv   bool
	resume  string // answer if a <resume/> arrives
	enable  string // answer if an <enable/> arrives
	stanzas int    // inbound stanzas sent once established
}

var c11resumeAns = []string{"resumed-same", "resumed-other", "failed", "failed-known-condition", "failed-no-condition", "unexpected", "close"}
var c11enableAns = []string{"enabled-resume-true", "enabled-resume-false", "failed", "unexpected", "close", "enabled-resume-true-no-id", "enabled-resume-true-empty-id", "enabled-id-no-resume", "enabled-id-resume-false"}

func c11queue(cl *Client) string {
	if cl.Session == nil || cl.Session.SMState.UnAckQueue == nil {
		return "<nil>"
	}
	var parts []string
	for _, q := range cl.Session.SMState.UnAckQueue.PeekN(1000) {
		if u, ok := q.(*stanza.UnAckedStz); ok {
			parts = append(parts, u.Stz)
		}
	}
	return strings.Join(parts, "|")
}

func c11body(maxConns, nStanzas, enableN int) func() {
	return func() {
		var plan []c11conn
		cur := 0
		ackedOnSession := 0 // what the server acknowledged on the current stream-managed session (and repeats in <resumed h=>)
		s := newSess(sessOpts{sm: true, smResume: true, resumedH: func() int { return ackedOnSession }, serverCfg: func(k int, c *negCfg) {
			if k < len(plan) {
				c.sm = plan[k].smAdv
			}
			c.pick = func(step string, alts ...string) string {
				if k < len(plan) {
					// answers are chosen lazily, when the request actually arrives
					if step == "resume" {
						plan[k].resume = c11resumeAns[vrt.ChooseFree("resume-ans", len(c11resumeAns))]
						hx.Symbol("resume=" + plan[k].resume)
						return plan[k].resume
					}
					if step == "enable" {
						plan[k].enable = c11enableAns[vrt.ChooseFree("enable-ans", enableN)]
						hx.Symbol("enable=" + plan[k].enable)
						return plan[k].enable
					}
				}
				return alts[0]
			}
		}})
		if s.cl == nil {
			return
		}
		// reference machine
		refID := ""          // id the client must present (when it may resume)
		refMaybe := false    // after a connection without sm: presenting refID or nothing are both fine
		refOptional := false // an id given without granting resumption: presenting it or not are both fine, counts asserted
		refCount := 0
		stale := map[string]bool{}
		hist := ""
		for cur = 0; cur < maxConns; cur++ {
			if cur > 0 && vrt.ChooseFree("more", 2) == 0 {
				break
			}
			plan = append(plan, c11conn{smAdv: vrt.ChooseFree("smadv", 2) == 0, stanzas: vrt.ChooseFree("stanzas", nStanzas)})
			pc := &plan[cur]
			s.cfg.StreamManagementEnable = true // the application keeps asking for stream management
			bindBefore, idBefore, queueBefore := "", "", ""
			inBefore := uint(0)
			if s.cl.Session != nil {
				bindBefore, idBefore, inBefore, queueBefore = s.cl.Session.BindJid, s.cl.Session.SMState.Id, s.cl.Session.SMState.Inbound, c11queue(s.cl)
			}
			err := s.cl.Connect()
			vrt.WaitIdle()
			if len(s.recs) <= cur {
				vrt.Fail("C11|harness|no-connection", "%s: connection %d was never dialled", hist, cur)
				return
			}
			r := s.recs[cur]
			hist += fmt.Sprintf("[conn%d sm=%v stanzas=%d resume->%s enable->%s]", cur, pc.smAdv, pc.stanzas, pc.resume, pc.enable)
			vrt.Log("conn%d err=%v steps=%v resume=%v", cur, err != nil, r.Steps, r.ResumeSeen)
			// --- what was the client allowed to write?
			for _, raw := range r.ResumeSeen {
				if stale[attr(raw, "previd")] {
					vrt.Fail("C11|stale-id-presented", "%s: connection %d presented the discarded id %q", hist, cur, attr(raw, "previd"))
				}
			}
			mayResume := pc.smAdv && refID != ""
			if len(r.ResumeSeen) > 1 {
				vrt.Fail("C11|several-resume-requests", "%s: %v", hist, r.ResumeSeen)
			}
			if len(r.ResumeSeen) == 1 {
				raw := r.ResumeSeen[0]
				if !mayResume {
					why := "no id held"
					if !pc.smAdv {
						why = "stream management not advertised"
					}
					vrt.Fail("C11|resume-without-id", "%s: connection %d wrote %s although %s", hist, cur, raw, why)
				} else {
					if attr(raw, "previd") != refID {
						vrt.Fail("C11|resume-wrong-id", "%s: previd=%q, reference %q", hist, attr(raw, "previd"), refID)
					}
					if h, e := strconv.Atoi(attr(raw, "h")); refCount >= 0 && (e != nil || h != refCount) {
						vrt.Fail("C11|resume-wrong-count", "%s: <resume h=%q>, reference %d", hist, attr(raw, "h"), refCount)
					}
				}
			} else if mayResume && !refMaybe && !refOptional && r.AuthOK && r.FailStep == "" && len(r.Requests) > 1 {
				vrt.Fail("C11|resumable-session-not-resumed", "%s: connection %d held id %q but bound without asking to resume (requests %v)", hist, cur, refID, r.Requests)
			}
			resumed := len(r.ResumeSeen) == 1 && pc.resume == "resumed-same" && r.Resumed
			switch {
			case resumed:
				if err != nil {
					vrt.Fail("C11|resumed-but-connect-failed", "%s: %v", hist, err)
				}
				if r.BindSeen != 0 {
					vrt.Fail("C11|bind-after-resumed", "%s: a bind request followed <resumed/>", hist)
				}
				if s.cl.Session.BindJid != bindBefore || s.cl.Session.SMState.Id != idBefore || s.cl.Session.SMState.Inbound != inBefore {
					vrt.Fail("C11|identity-changed-by-resume", "%s: jid %q->%q id %q->%q inbound %d->%d", hist, bindBefore, s.cl.Session.BindJid, idBefore, s.cl.Session.SMState.Id, inBefore, s.cl.Session.SMState.Inbound)
				}
				if q := c11queue(s.cl); !strings.HasPrefix(q, queueBefore) {
					vrt.Fail("C11|held-stanzas-changed-by-resume", "%s: held %q -> %q", hist, queueBefore, q)
				}
				refMaybe = false
			case len(r.ResumeSeen) == 1:
				// refused / other id / unexpected / closed: the id is gone for good
				stale[refID] = true
				old := refID
				refID, refCount, refMaybe = "", 0, false
				if strings.HasPrefix(pc.resume, "failed") {
					if r.BindSeen != 1 {
						vrt.Fail("C11|no-bind-after-refusal|"+pc.resume, "%s: after <failed/> the client sent %d bind requests (connect err %v)", hist, r.BindSeen, err)
					}
				} else if err == nil && r.BindSeen == 0 {
					vrt.Fail("C11|old-session-continued|answer="+pc.resume, "%s: answer %s to <resume previd=%q> and yet Connect succeeded without a bind", hist, pc.resume, old)
				}
				if s.cl.Session != nil && s.cl.Session.SMState.Id == old && old != "" && !(r.EnableOK) {
					vrt.Fail("C11|stale-id-kept|answer="+pc.resume, "%s: SMState.Id still %q", hist, old)
				}
			}
			if !resumed && r.EnableSeen > 0 {
				// a fresh stream-managed session (or a failed attempt at one)
				if refID != "" && !stale[refID] && r.EnableOK {
					stale[refID] = true // superseded by the new session
				}
				if pc.enable == "enabled-resume-true" && r.EnableOK {
					refID, refCount, refMaybe, refOptional = fmt.Sprintf("smid-%d", cur), 0, false, false
					delete(stale, refID)
				} else if strings.HasPrefix(pc.enable, "enabled-id-") && r.EnableOK {
					// an id was given and resumption was not granted: presenting that id later, or not, are both within
					// the property - but when it is presented, it is that id with the current count
					refID, refCount, refMaybe, refOptional = fmt.Sprintf("smid-%d", cur), 0, false, true
					delete(stale, refID)
				} else {
					refOptional = false
					if refID != "" {
						stale[refID] = true
					}
					refID, refCount, refMaybe = "", 0, false
				}
			} else if !resumed && len(r.ResumeSeen) == 0 && r.BindOK && refID != "" {
				// bound a fresh session without stream management (not advertised): whether the old id
				// is kept for later is not asserted either way
				refMaybe = true
			}
			if err != nil {
				continue
			}
			// --- traffic on the established session, then a drop
			sc := s.conn(cur)
			sc.drainNew()
			for i := 0; i < pc.stanzas; i++ {
				sc.send(c09wire("message", cur*10+i))
				vrt.WaitIdle()
				if refID != "" && !refMaybe {
					refCount++
				} else if refMaybe {
					refMaybe = true
					refCount = -1 << 20 // counts on a session without stream management are not asserted
				}
			}
			if r.EnableOK && !resumed {
				ackedOnSession = 0
			}
			if r.EnableOK || resumed {
				_ = s.cl.Send(stanza.Message{Attrs: stanza.Attrs{To: "peer@example.org", Id: fmt.Sprintf("out%d", cur)}, Body: "held"})
				vrt.WaitIdle()
				if r.EnableOK && !resumed && vrt.ChooseFree("ack-presence", 2) == 1 {
					// the server acknowledges the first stanza of the session (the initial presence) only; it
					// will repeat that count in a later <resumed h='1'/>, which must not release anything more
					sc.send("<a xmlns='urn:xmpp:sm:3' h='1'/>")
					ackedOnSession = 1
					vrt.WaitIdle()
				}
			}
			sc.close()
			vrt.WaitIdle()
		}
		vrt.Log("history %s", hist)
	}
}

func TestVerifC11(t *testing.T) {
	maxConns := 3
	if hx.Thorough() {
		maxConns = 4
	}
	var scs []hx.Scenario
	nStanzas := 2
	if hx.Thorough() {
		nStanzas = 3
	}
	verdict := func(e *vrt.Exec) {
		if e.Panic != nil {
			vrt.Fail("C11|panic", "%s %s", e.Panic.Value, trimStack(e.Panic.Stack))
		} else if e.Deadlock {
			vrt.Fail("C11|hang", "blocked: %s", e.BlockedSummary())
		}
	}
	if hx.Thorough() {
		// four connections with the five basic answers to <enable/>; all nine answers on histories of three connections
		scs = append(scs, hx.Scenario{Name: "histories", Opt: vrt.Options{Bound: 0, SplitDepth: 6}, Body: c11body(maxConns, nStanzas, 5), Verdict: verdict})
		scs = append(scs, hx.Scenario{Name: "histories-enable-variants", Opt: vrt.Options{Bound: 0, SplitDepth: 6}, Body: c11body(3, nStanzas, len(c11enableAns)), Verdict: verdict})
	} else {
		scs = append(scs, hx.Scenario{Name: "histories", Opt: vrt.Options{Bound: 0, SplitDepth: 6}, Body: c11body(maxConns, nStanzas, len(c11enableAns)), Verdict: verdict})
	}
	if hx.Main("C11", scs) == 2 {
		t.Fatal("internal error")
	}
}
