//go:build verif

package xmpp

import (
	"fmt"
	"strings"

	"gosrc.io/xmpp/stanza"
	"verif/vnet"
	"verif/vrt"
)

// sess is an established client session against the scripted server, with the
// established phase of the server driven either by a callback (server thread) or
// directly by the harness thread (sequential histories).

type sessOpts struct {
	sm        bool // client requests stream management and the server offers it
	smResume  bool
	resumeAns string // answer to <resume/> on later connections (default resumed-same)
	enableAns string // answer to <enable/> (default enabled-resume-true)
	resumedH  func() int
	insecure  bool
	keepalive int64 // seconds, 0 = default
	// served, if set, runs in the server thread once the session is up
	served func(s *srvConn, r *negRec)
	// serverCfg may adjust the server configuration per connection
	serverCfg  func(k int, c *negCfg)
	noCatchAll bool
}

type sess struct {
	o       sessOpts
	w       *vnet.World
	recs    []*negRec
	conns   []*srvConn
	cl      *Client
	cfg     *Config
	router  *Router
	routed  []string
	errs    []string
	events  []Event
	park    bool // when true, server threads park after negotiation and the harness drives the connection
	release bool
}

func describePacket(p stanza.Packet) string {
	switch x := p.(type) {
	case stanza.Message:
		return "message:" + x.Id
	case stanza.Presence:
		return "presence:" + x.Id
	case *stanza.IQ:
		return "iq:" + x.Id + ":" + string(x.Type)
	case stanza.SMAnswer:
		return fmt.Sprintf("a:%d", x.H)
	case stanza.SMRequest:
		return "r"
	}
	return p.Name()
}

func newSess(o sessOpts) *sess {
	s := &sess{o: o, park: o.served == nil}
	s.w = vnet.NewWorld()
	listen(s.w, "example.org:5222", func(k int) *negCfg {
		c := &negCfg{domain: "example.org", starttls: "absent", mechs: []string{"PLAIN"}, session: "absent", sm: o.sm,
			smID: fmt.Sprintf("smid-%d", k), pick: func(step string, alts ...string) string {
				if step == "resume" && o.resumeAns != "" {
					return o.resumeAns
				}
				if step == "enable" && o.enableAns != "" {
					return o.enableAns
				}
				return alts[0]
			}}
		if o.resumedH != nil {
			c.resumedH = o.resumedH()
		}
		c.established = func(sc *srvConn, r *negRec) {
			if o.served != nil {
				o.served(sc, r)
				return
			}
			vrt.Block("srv: parked, harness drives", func() bool { return s.release })
		}
		if o.serverCfg != nil {
			o.serverCfg(k, c)
		}
		return c
	}, &s.recs, &s.conns)
	s.router = NewRouter()
	if !o.noCatchAll {
		s.router.NewRoute().HandlerFunc(func(_ Sender, p stanza.Packet) {
			d := describePacket(p)
			s.routed = append(s.routed, d)
			vrt.Log("routed %s", d)
		})
	}
	cfg := &Config{
		TransportConfiguration: TransportConfiguration{Address: "example.org:5222", Domain: "example.org"},
		Jid:                    "user@example.org/res1",
		Credential:             Password("secret"),
		Insecure:               true,
		StreamManagementEnable: o.sm,
	}
	cfg.streamManagementResume = o.smResume
	if o.keepalive > 0 {
		cfg.KeepaliveInterval = secs(o.keepalive)
	}
	cl, err := NewClient(cfg, s.router, func(err error) {
		s.errs = append(s.errs, err.Error())
		vrt.Log("errorhandler")
	})
	if err != nil {
		vrt.Fail("harness|newclient", "%v", err)
		return s
	}
	cl.SetHandler(func(e Event) error {
		s.events = append(s.events, e)
		vrt.Log("event state=%d smid=%q", e.State.state, e.SMState.Id)
		return nil
	})
	s.cl, s.cfg = cl, cfg
	return s
}

// conn returns the k-th server-side connection.
func (s *sess) conn(k int) *srvConn {
	if k < len(s.conns) {
		return s.conns[k]
	}
	return nil
}

// drainNew returns the units the client wrote since the last call (harness-driven
// mode: never blocks).
func (sc *srvConn) drainNew() []unit {
	var out []unit
	for {
		if u, ok := sc.sp.scan(); ok {
			u.at = vrt.VNow()
			sc.Units = append(sc.Units, u)
			if u.kind != "space" {
				out = append(out, u)
			}
			continue
		}
		if sc.raw.Buffered() == 0 {
			return out
		}
		sc.sp.fill()
	}
}

func unitNames(us []unit) string {
	var n []string
	for _, u := range us {
		if u.kind == "element" {
			n = append(n, u.name)
		} else {
			n = append(n, u.kind)
		}
	}
	return strings.Join(n, ",")
}
