//go:build verif

package xmpp

import (
	"crypto/ed25519"
	"crypto/rand"
	"crypto/tls"
	"crypto/x509"
	"crypto/x509/pkix"
	"encoding/pem"
	"fmt"
	"io"
	"math/big"
	"os"
	"strings"
	"sync"
	"time"

	"verif/vnet"
	"verif/vrt"
)

// ---------------------------------------------------------------------------
// Wire splitter: cuts a client byte stream into prolog, stream open, complete
// top-level elements, whitespace and stream close, independently of encoding/xml
// and of how the client chunks its writes.

type unit struct {
	kind string // prolog, open, element, close, space, junk, eof
	raw  string
	name string // qualified tag name as written, e.g. "iq", "stream:stream"
	tls  bool   // travelled inside TLS
	at   time.Duration
}

func (u unit) String() string { return u.kind + ":" + u.raw }

type splitter struct {
	r   io.Reader
	buf []byte
	eof bool
	err error
}

func (s *splitter) fill() bool {
	if s.eof {
		return false
	}
	tmp := make([]byte, 4096)
	n, err := s.r.Read(tmp)
	if n > 0 {
		s.buf = append(s.buf, tmp[:n]...)
	}
	if err != nil {
		s.eof = true
		s.err = err
	}
	return n > 0
}

func isSpace(b byte) bool { return b == ' ' || b == '\n' || b == '\t' || b == '\r' }

// tagEnd returns the index just past the '>' closing the tag that starts at buf[i]
// (quotes respected), or -1 if incomplete.
func tagEnd(buf []byte, i int) int {
	var q byte
	for j := i + 1; j < len(buf); j++ {
		c := buf[j]
		if q != 0 {
			if c == q {
				q = 0
			}
			continue
		}
		if c == '"' || c == '\'' {
			q = c
			continue
		}
		if c == '>' {
			return j + 1
		}
	}
	return -1
}

func tagName(tag []byte) string {
	i := 1
	if i < len(tag) && tag[i] == '/' {
		i++
	}
	j := i
	for j < len(tag) && !isSpace(tag[j]) && tag[j] != '>' && tag[j] != '/' {
		j++
	}
	return string(tag[i:j])
}

// scan tries to cut one unit from the buffer; ok=false means more bytes are needed.
func (s *splitter) scan() (unit, bool) {
	b := s.buf
	if len(b) == 0 {
		return unit{}, false
	}
	if isSpace(b[0]) {
		j := 0
		for j < len(b) && isSpace(b[j]) {
			j++
		}
		s.buf = b[j:]
		return unit{kind: "space", raw: string(b[:j])}, true
	}
	if b[0] != '<' {
		// character data at top level: junk up to the next '<'
		j := 0
		for j < len(b) && b[j] != '<' {
			j++
		}
		s.buf = b[j:]
		return unit{kind: "junk", raw: string(b[:j])}, true
	}
	if len(b) >= 2 && b[1] == '?' {
		k := strings.Index(string(b), "?>")
		if k < 0 {
			return unit{}, false
		}
		s.buf = b[k+2:]
		return unit{kind: "prolog", raw: string(b[:k+2])}, true
	}
	e := tagEnd(b, 0)
	if e < 0 {
		return unit{}, false
	}
	first := b[:e]
	name := tagName(first)
	if len(first) >= 2 && first[1] == '/' {
		s.buf = b[e:]
		return unit{kind: "close", raw: string(first), name: name}, true
	}
	if name == "stream:stream" || name == "open" && strings.Contains(string(first), "xmpp-framing") {
		s.buf = b[e:]
		return unit{kind: "open", raw: string(first), name: name}, true
	}
	if first[len(first)-2] == '/' {
		s.buf = b[e:]
		return unit{kind: "element", raw: string(first), name: name}, true
	}
	// find the matching end tag by depth counting
	depth := 1
	i := e
	for depth > 0 {
		for i < len(b) && b[i] != '<' {
			i++
		}
		if i >= len(b) {
			return unit{}, false
		}
		if strings.HasPrefix(string(b[i:]), "<!--") {
			k := strings.Index(string(b[i:]), "-->")
			if k < 0 {
				return unit{}, false
			}
			i += k + 3
			continue
		}
		if strings.HasPrefix(string(b[i:]), "<![CDATA[") {
			k := strings.Index(string(b[i:]), "]]>")
			if k < 0 {
				return unit{}, false
			}
			i += k + 3
			continue
		}
		te := tagEnd(b, i)
		if te < 0 {
			return unit{}, false
		}
		t := b[i:te]
		switch {
		case len(t) >= 2 && t[1] == '/':
			depth--
		case len(t) >= 2 && (t[1] == '?' || t[1] == '!'):
		case t[len(t)-2] == '/':
		default:
			depth++
		}
		i = te
	}
	s.buf = b[i:]
	return unit{kind: "element", raw: string(b[:i]), name: name}, true
}

// next blocks until a complete unit is available; at end of stream it returns kind
// "eof" (raw = whatever incomplete bytes were left).
func (s *splitter) next() unit {
	for {
		if u, ok := s.scan(); ok {
			return u
		}
		if !s.fill() && s.eof {
			u := unit{kind: "eof", raw: string(s.buf)}
			s.buf = nil
			return u
		}
	}
}

// splitAll cuts a complete byte string (for monitors).
func splitAll(b []byte) []unit {
	s := &splitter{r: strings.NewReader(""), buf: append([]byte{}, b...), eof: true}
	var us []unit
	for {
		u, ok := s.scan()
		if !ok {
			if len(s.buf) > 0 {
				us = append(us, unit{kind: "partial", raw: string(s.buf)})
			}
			return us
		}
		us = append(us, u)
	}
}

// ---------------------------------------------------------------------------
// TLS fixtures

type fixtures struct {
	caPool    *x509.CertPool
	caPEM     []byte
	valid     tls.Certificate // valid for "example.org" (and localhost)
	otherName tls.Certificate // valid chain, but only for "other.example"
	unknownCA tls.Certificate // right name, signed by a CA nobody trusts
	expired   tls.Certificate // right name and CA, expired
}

var (
	fixOnce sync.Once
	fix     *fixtures
)

func mkCA(cn string) (*x509.Certificate, ed25519.PrivateKey, []byte) {
	pub, priv, _ := ed25519.GenerateKey(rand.Reader)
	tpl := &x509.Certificate{
		SerialNumber: big.NewInt(1), Subject: pkix.Name{CommonName: cn},
		NotBefore: time.Now().Add(-24 * time.Hour), NotAfter: time.Now().Add(10 * 365 * 24 * time.Hour),
		IsCA: true, KeyUsage: x509.KeyUsageCertSign | x509.KeyUsageDigitalSignature, BasicConstraintsValid: true,
	}
	der, err := x509.CreateCertificate(rand.Reader, tpl, tpl, pub, priv)
	if err != nil {
		panic(err)
	}
	c, _ := x509.ParseCertificate(der)
	return c, priv, der
}

func mkLeaf(ca *x509.Certificate, caKey ed25519.PrivateKey, names []string, nb, na time.Time, serial int64) tls.Certificate {
	pub, priv, _ := ed25519.GenerateKey(rand.Reader)
	tpl := &x509.Certificate{
		SerialNumber: big.NewInt(serial), Subject: pkix.Name{CommonName: names[0]}, DNSNames: names,
		NotBefore: nb, NotAfter: na, KeyUsage: x509.KeyUsageDigitalSignature,
		ExtKeyUsage: []x509.ExtKeyUsage{x509.ExtKeyUsageServerAuth},
	}
	der, err := x509.CreateCertificate(rand.Reader, tpl, ca, pub, caKey)
	if err != nil {
		panic(err)
	}
	return tls.Certificate{Certificate: [][]byte{der}, PrivateKey: priv}
}

// getFixtures builds the certificates once per process. When VERIF_CA_FILE names a
// file, the CA is loaded from / stored to it so that a parent process can point
// SSL_CERT_FILE at it (the "default trust store" configuration).
func getFixtures() *fixtures {
	fixOnce.Do(func() {
		f := &fixtures{}
		var ca *x509.Certificate
		var caKey ed25519.PrivateKey
		var caDER []byte
		if p := os.Getenv("VERIF_CA_KEY"); p != "" {
			if kb, err := os.ReadFile(p); err == nil {
				cb, _ := os.ReadFile(os.Getenv("SSL_CERT_FILE"))
				blk, _ := pem.Decode(cb)
				kblk, _ := pem.Decode(kb)
				if blk != nil && kblk != nil {
					ca, _ = x509.ParseCertificate(blk.Bytes)
					k, _ := x509.ParsePKCS8PrivateKey(kblk.Bytes)
					caKey, _ = k.(ed25519.PrivateKey)
					caDER = blk.Bytes
				}
			}
		}
		if ca == nil {
			ca, caKey, caDER = mkCA("verif test CA")
		}
		f.caPEM = pem.EncodeToMemory(&pem.Block{Type: "CERTIFICATE", Bytes: caDER})
		f.caPool = x509.NewCertPool()
		f.caPool.AddCert(ca)
		now := time.Now()
		f.valid = mkLeaf(ca, caKey, []string{"example.org", "localhost"}, now.Add(-time.Hour), now.Add(365*24*time.Hour), 2)
		f.otherName = mkLeaf(ca, caKey, []string{"other.example"}, now.Add(-time.Hour), now.Add(365*24*time.Hour), 3)
		f.expired = mkLeaf(ca, caKey, []string{"example.org"}, now.Add(-48*time.Hour), now.Add(-24*time.Hour), 4)
		rogue, rogueKey, _ := mkCA("rogue CA")
		f.unknownCA = mkLeaf(rogue, rogueKey, []string{"example.org"}, now.Add(-time.Hour), now.Add(365*24*time.Hour), 5)
		fix = f
	})
	return fix
}

func (f *fixtures) cert(kind string) tls.Certificate {
	switch kind {
	case "wrong-host":
		return f.otherName
	case "unknown-issuer":
		return f.unknownCA
	case "expired":
		return f.expired
	}
	return f.valid
}

// ---------------------------------------------------------------------------
// Scripted server side of one connection

const (
	nsTLS  = "urn:ietf:params:xml:ns:xmpp-tls"
	nsSASL = "urn:ietf:params:xml:ns:xmpp-sasl"
	nsBind = "urn:ietf:params:xml:ns:xmpp-bind"
	nsSess = "urn:ietf:params:xml:ns:xmpp-session"
	nsSM   = "urn:xmpp:sm:3"
)

type srvConn struct {
	raw      *vnet.Conn
	rw       io.ReadWriter
	sp       *splitter
	inTLS    bool
	k        int    // index of this connection at its listener
	Units    []unit // every unit read from the client, in order
	Sent     []string
	closed   bool
	streamID string
	pending  []unit // units handed back for the established-phase handler
}

func newSrvConn(k int, c *vnet.Conn) *srvConn {
	return &srvConn{raw: c, rw: c, sp: &splitter{r: c}, k: k}
}

// read returns the next non-space unit from the client.
// srvSkipApp: stanzas that a goroutine of the application sends at any time (C04) do not disturb the script
var srvSkipApp bool

func (s *srvConn) read() unit {
	if len(s.pending) > 0 {
		u := s.pending[0]
		s.pending = s.pending[1:]
		return u
	}
	for {
		u := s.sp.next()
		u.tls = s.inTLS
		u.at = vrt.VNow()
		s.Units = append(s.Units, u)
		if vrt.Killed() {
			return unit{kind: "eof"}
		}
		if u.kind == "space" {
			continue
		}
		vrt.Tracef("srv#%d <- %s", s.k, u)
		if srvSkipApp && u.kind == "element" && u.name == "message" && strings.Contains(u.raw, "from the application") {
			continue // recorded in Units; the scripted negotiation goes on as if it had not come
		}
		return u
	}
}

func (s *srvConn) send(x string) {
	if s.closed {
		return
	}
	s.Sent = append(s.Sent, x)
	vrt.Tracef("srv#%d -> %s", s.k, x)
	s.rw.Write([]byte(x))
}

// sendChunks writes x in the given pieces, letting the system settle between them so
// that the client's reader really sees that segmentation.
func (s *srvConn) sendChunks(parts []string) {
	for _, p := range parts {
		if p == "" {
			continue
		}
		s.send(p)
		vrt.WaitIdle()
	}
}

func (s *srvConn) close() {
	if s.closed {
		return
	}
	s.closed = true
	vrt.Tracef("srv#%d close", s.k)
	if tc, ok := s.rw.(*tls.Conn); ok {
		_ = tc // no close_notify: an abrupt loss
	}
	s.raw.CloseNow()
}

func (s *srvConn) header(ns string) string {
	return fmt.Sprintf("<?xml version='1.0'?><stream:stream id='%s' xmlns='%s' xmlns:stream='http://etherx.jabber.org/streams' version='1.0'>", s.streamID, ns)
}

// startTLS performs the server side of the handshake with the given certificate.
func (s *srvConn) startTLS(cert tls.Certificate) error {
	s.raw.NoYieldWrite = true
	s.raw.Peer().NoYieldWrite = true
	tc := tls.Server(s.raw, &tls.Config{Certificates: []tls.Certificate{cert}, MinVersion: tls.VersionTLS12})
	if err := tc.Handshake(); err != nil {
		vrt.Tracef("srv#%d tls handshake failed: %v", s.k, err)
		return err
	}
	s.rw = tc
	s.sp = &splitter{r: tc}
	s.inTLS = true
	return nil
}

func attr(raw, name string) string {
	for _, q := range []string{`"`, `'`} {
		k := strings.Index(raw, " "+name+"="+q)
		if k >= 0 {
			rest := raw[k+len(name)+3:]
			if e := strings.Index(rest, q); e >= 0 {
				return rest[:e]
			}
		}
	}
	return ""
}
