//go:build verif

package xmpp

import (
	"fmt"
	"math/big"
	"strings"
	"testing"
	"time"

	"verif/hx"
	"verif/vrt"
)

// C19: back-off delays. Reference in math/big.

func c19ref(base, factor, cap int, attempt int64) *big.Int {
	// min(cap, base*factor^attempt) in milliseconds
	c := big.NewInt(int64(cap))
	if factor == 1 {
		b := big.NewInt(int64(base))
		if b.Cmp(c) > 0 {
			return c
		}
		return b
	}
	v := big.NewInt(int64(base))
	f := big.NewInt(int64(factor))
	for i := int64(0); i < attempt; i++ {
		v.Mul(v, f)
		if v.Cmp(c) >= 0 {
			return c
		}
	}
	if v.Cmp(c) > 0 {
		return c
	}
	return v
}

func c19attemptClass(n int64) string {
	switch {
	case n == 0:
		return "n=0"
	case n <= 80:
		return "n<=80"
	}
	return "n-huge"
}

// c19mixed: the two entry points and reset on one object, in every order: all sequences of up to `depth` operations
// over {wait (duration()), query n (durationForAttempt(n)) for n in 0, 3, 40, 1000, reset}. A wait is the k-th since
// the last reset whatever was queried in between; a query depends on its argument alone.
func c19mixed(c *hx.Ctx, base, factor, cp, depth int) {
	eb, ef, ec := base, factor, cp
	if eb == 0 {
		eb = 20
	}
	if ef == 0 {
		ef = 2
	}
	if ec == 0 {
		ec = 180000
	}
	ops := []string{"wait", "q0", "q3", "q40", "q1000", "reset"}
	qn := map[string]int{"q0": 0, "q3": 3, "q40": 40, "q1000": 1000}
	cfg := fmt.Sprintf("base=%d factor=%d cap=%d", base, factor, cp)
	var rec func(path []string)
	rec = func(path []string) {
		if len(path) > 0 {
			b := &backoff{NoJitter: true, Base: base, Factor: factor, Cap: cp}
			k := int64(0)
			for i, op := range path {
				var d, want time.Duration
				switch op {
				case "wait":
					d = b.duration()
					want = time.Duration(c19ref(eb, ef, ec, k).Int64()) * time.Millisecond
					k++
				case "reset":
					b.reset()
					k = 0
					continue
				default:
					d = b.durationForAttempt(qn[op])
					want = time.Duration(c19ref(eb, ef, ec, int64(qn[op])).Int64()) * time.Millisecond
				}
				if i == len(path)-1 {
					c.Step(1)
					c.Eval(fmt.Sprintf("%s %v => %d", cfg, path, d))
					if d != want {
						kind := "wait"
						if op != "wait" {
							kind = "query"
						}
						c.Fail("C19|mixed-use|"+kind, cfg+" "+strings.Join(path, ","), "%s: after %v the last operation gave %v, reference %v", cfg, path[:len(path)-1], d, want)
					}
				}
			}
		}
		if len(path) == depth {
			return
		}
		for _, op := range ops {
			rec(append(append([]string{}, path...), op))
		}
	}
	rec(nil)
}

func TestVerifC19(t *testing.T) {
	attempts := []int64{}
	for i := int64(0); i <= 80; i++ {
		attempts = append(attempts, i)
	}
	attempts = append(attempts, 100, 1000, 1000000, 1<<31-1, 1<<62, 1<<63-1)
	bases := []int{0, 1, 20, 25, 1000, 1000000000}
	factors := []int{0, 1, 2, 3, 10}
	caps := []int{0, 1, 100, 180000, 1000000000, 9000000000000}
	var scs []hx.Scenario
	for _, base := range bases {
		for _, factor := range factors {
			base, factor := base, factor
			scs = append(scs, hx.Scenario{Name: fmt.Sprintf("base=%d/factor=%d", base, factor), Run: func(c *hx.Ctx) {
				c19config(c, base, factor, caps, attempts)
				c.Sample(map[string]any{"base": base, "factor": factor, "caps": caps, "attempts": "0..80,100,1000,1e6,2^31-1,2^62,2^63-1"})
			}})
		}
	}
	// every small configuration: caps that are not multiples of the base, bases above the cap, ...
	small := []int64{0, 1, 2, 3, 4, 5, 6, 7, 8, 9, 10, 40, 1 << 31, 1<<63 - 1}
	for base := 1; base <= 12; base++ {
		base := base
		scs = append(scs, hx.Scenario{Name: fmt.Sprintf("small/base=%d", base), Run: func(c *hx.Ctx) {
			var caps []int
			for cp := 1; cp <= 64; cp++ {
				caps = append(caps, cp)
			}
			for factor := 1; factor <= 5; factor++ {
				c19config(c, base, factor, caps, small)
			}
			c.Sample(map[string]any{"base": base, "factors": "1..5", "caps": "1..64", "attempts": small})
		}})
	}
	for _, cfgv := range [][3]int{{0, 0, 0}, {20, 2, 180000}, {1000, 3, 5000}, {7, 10, 100}, {1, 2, 1 << 30}} {
		cfgv := cfgv
		scs = append(scs, hx.Scenario{Name: fmt.Sprintf("mixed/base=%d/factor=%d/cap=%d", cfgv[0], cfgv[1], cfgv[2]), Run: func(c *hx.Ctx) {
			depth := 6
			if hx.Thorough() {
				depth = 7
			}
			c19mixed(c, cfgv[0], cfgv[1], cfgv[2], depth)
			c.Sample(map[string]any{"config": cfgv, "history": "wait,wait,q1000,wait,reset,wait"})
		}})
	}
	if hx.Main("C19", scs) == 2 {
		t.Fatal("internal error")
	}
}

func c19config(c *hx.Ctx, base, factor int, caps []int, attempts []int64) {
	{
		{
			{
				eb, ef := base, factor
				if eb == 0 {
					eb = 20
				}
				if ef == 0 {
					ef = 2
				}
				for _, cp := range caps {
					ec := cp
					if ec == 0 {
						ec = 180000
					}
					cfg := fmt.Sprintf("base=%d factor=%d cap=%d", base, factor, cp)
					// --- per-attempt query, no jitter: fresh object and used object
					for _, used := range []bool{false, true} {
						var prev time.Duration = -1
						for _, n := range attempts {
							b := &backoff{NoJitter: true, Base: base, Factor: factor, Cap: cp}
							if used {
								b.duration()
								b.duration()
								b.duration()
							}
							d := b.durationForAttempt(int(n))
							c.Step(1)
							want := c19ref(eb, ef, ec, n)
							wantD := time.Duration(want.Int64()) * time.Millisecond
							c.Eval(fmt.Sprintf("%s n=%d d=%d", cfg, n, d))
							if d < 0 {
								c.Fail("C19|negative|query", cfg, "%s: durationForAttempt(%d) = %v", cfg, n, d)
							}
							if d > time.Duration(ec)*time.Millisecond {
								c.Fail("C19|above-cap|query", cfg, "%s: durationForAttempt(%d) = %v above cap", cfg, n, d)
							}
							if d != wantD {
								c.Fail(fmt.Sprintf("C19|query-not-min-cap-exp|%s|used=%v", c19attemptClass(n), used), cfg,
									"%s used=%v: durationForAttempt(%d) = %v, reference min(cap, base*factor^n) = %v", cfg, used, n, d, wantD)
							}
							if prev >= 0 && d < prev {
								c.Fail("C19|query-decreasing", cfg, "%s: durationForAttempt(%d) = %v < previous %v", cfg, n, d, prev)
							}
							prev = d
						}
					}
					// --- stateful sequence, no jitter
					{
						b := &backoff{NoJitter: true, Base: base, Factor: factor, Cap: cp}
						var prev time.Duration = -1
						for n := int64(0); n < 90; n++ {
							d := b.duration()
							c.Step(1)
							wantD := time.Duration(c19ref(eb, ef, ec, n).Int64()) * time.Millisecond
							c.Eval(fmt.Sprintf("%s seq n=%d d=%d", cfg, n, d))
							if d != wantD {
								c.Fail("C19|sequence-not-min-cap-exp", cfg, "%s: %d-th duration() = %v, reference %v", cfg, n, d, wantD)
							}
							if d < prev {
								c.Fail("C19|sequence-decreasing", cfg, "%s: %d-th duration() = %v < previous %v", cfg, n, d, prev)
							}
							prev = d
						}
						b.reset()
						if d := b.duration(); d != time.Duration(c19ref(eb, ef, ec, 0).Int64())*time.Millisecond {
							c.Fail("C19|reset", cfg, "%s: duration() after reset = %v", cfg, d)
						}
					}
					// --- jitter: the argument handed to the random source is the reference value,
					// the result is the answer (in ms) and lies in [0, value]
					for _, pick := range []int{0, 1, 2} {
						for _, n := range attempts {
							var arg int = -1
							vrt.RandHook = func(m int) int {
								arg = m
								switch pick {
								case 1:
									return m / 2
								case 2:
									return m - 1
								}
								return 0
							}
							b := &backoff{Base: base, Factor: factor, Cap: cp}
							d := b.durationForAttempt(int(n))
							vrt.RandHook = nil
							c.Step(1)
							want := c19ref(eb, ef, ec, n)
							c.Eval(fmt.Sprintf("%s jit n=%d pick=%d d=%d", cfg, n, pick, d))
							hi := time.Duration(want.Int64()) * time.Millisecond
							if d < 0 || d > hi {
								c.Fail("C19|jitter-out-of-range|"+c19attemptClass(n), cfg, "%s: jittered durationForAttempt(%d) = %v outside [0,%v]", cfg, n, d, hi)
							}
							if arg >= 0 && int64(arg) != want.Int64() {
								c.Fail("C19|jitter-range-wrong|"+c19attemptClass(n), cfg, "%s: jitter drawn from [0,%d) for attempt %d, reference bound %v", cfg, arg, n, want)
							}
						}
					}
				}
			}
		}
	}
}
