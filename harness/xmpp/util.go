//go:build verif

package xmpp

import "time"

func secs(n int64) time.Duration { return time.Duration(n) * time.Second }
