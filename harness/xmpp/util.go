//go:build verif

package xmpp

import (
	"time"

	"verif/hx"
)

func secs(n int64) time.Duration { return time.Duration(n) * time.Second }

// thoroughBound is the deviation bound of checks whose quick tier explores only the default
// schedule (sequential histories): the thorough tier also takes every single departure from it.
func thoroughBound(n int) int {
	if hx.Thorough() {
		return n
	}
	return 0
}
