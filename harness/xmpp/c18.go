//go:build verif

package xmpp

import (
	"encoding/xml"
	"errors"
	"fmt"
	"io"
	"net"
	"reflect"
	"syscall"
	"testing"
	"time"

	"gosrc.io/xmpp/stanza"
	"verif/hx"
	"verif/vnet"
	"verif/vrt"
)

// C18: keepalive is sent at the interval, closes a dead connection, stops with the session.

type c18stub struct {
	pings  []time.Duration
	closes []time.Duration
	failAt int // 1-based index of the ping that fails (0 = never)
}

func (t *c18stub) Connect() (string, error)     { return "", nil }
func (t *c18stub) DoesStartTLS() bool           { return false }
func (t *c18stub) StartTLS() error              { return nil }
func (t *c18stub) LogTraffic(io.Writer)         {}
func (t *c18stub) StartStream() (string, error) { return "", nil }
func (t *c18stub) GetDecoder() *xml.Decoder     { return nil }
func (t *c18stub) IsSecure() bool               { return false }
func (t *c18stub) Read(p []byte) (int, error)   { return 0, io.EOF }
func (t *c18stub) Write(p []byte) (int, error)  { return len(p), nil }
func (t *c18stub) ReceivedStreamClose()         {}
func (t *c18stub) Ping() error {
	vrt.Yield("ping")
	t.pings = append(t.pings, vrt.VNow())
	vrt.Log("ping at %s", vrt.VNow())
	if t.failAt > 0 && len(t.pings) == t.failAt {
		return errors.New("write: broken pipe")
	}
	return nil
}
func (t *c18stub) Close() error {
	vrt.Yield("close")
	t.closes = append(t.closes, vrt.VNow())
	vrt.Log("close at %s", vrt.VNow())
	return nil
}

// The loop scenarios call the library's keepalive function directly. Its parameter list is the library's business:
// the call goes through reflection, and when the parameters are not (transport, interval, quit channel) any more
// the loop scenarios step aside (the client-level scenarios, which go through Connect/Resume, do not depend on it).
func c18keepaliveCallable() bool {
	ft := reflect.TypeOf(keepalive)
	return ft.Kind() == reflect.Func && ft.NumIn() == 3 && !ft.IsVariadic() &&
		reflect.TypeOf(&c18stub{}).AssignableTo(ft.In(0)) &&
		ft.In(1) == reflect.TypeOf(time.Duration(0)) &&
		reflect.TypeOf((<-chan struct{})(nil)).AssignableTo(ft.In(2))
}

func c18callKeepalive(st *c18stub, interval time.Duration, quit chan struct{}) {
	reflect.ValueOf(keepalive).Call([]reflect.Value{reflect.ValueOf(st), reflect.ValueOf(interval), reflect.ValueOf((<-chan struct{})(quit))})
}

// (a) the keepalive loop itself against a recording transport
func c18loop(interval time.Duration, failAt int, quitTick int, quitDelta time.Duration) func() {
	return func() {
		st := &c18stub{failAt: failAt}
		quit := make(chan struct{})
		finished := false
		vrt.Go("keepalive", func() {
			c18callKeepalive(st, interval, quit)
			finished = true
		})
		end := time.Duration(quitTick)*interval + quitDelta
		if end < 0 {
			end = 0
		}
		vrt.Sleep(end)
		vrt.Close(quit)
		vrt.Sleep(5*interval + time.Millisecond)
		vrt.WaitIdle()
		cfg := fmt.Sprintf("interval=%s failAt=%d session-end=%s", interval, failAt, end)
		cls := "quit-off-tick"
		if quitDelta == 0 {
			cls = "quit-on-tick"
		}
		// reference
		failedAt := time.Duration(-1)
		for i, p := range st.pings {
			want := time.Duration(i+1) * interval
			if p != want {
				vrt.Fail("C18|ping-off-schedule", "%s: ping #%d at %s, want %s (pings %v)", cfg, i+1, p, want, st.pings)
			}
			if p > end {
				vrt.Fail("C18|ping-after-session-end|"+cls, "%s: ping at %s after the session ended (pings %v)", cfg, p, st.pings)
			}
			if failedAt >= 0 {
				vrt.Fail("C18|ping-after-failed-ping", "%s: ping at %s after the ping at %s failed", cfg, p, failedAt)
			}
			if failAt > 0 && i+1 == failAt {
				failedAt = p
			}
		}
		// every tick strictly before the end (and before a failure) must have produced a ping
		wantN := 0
		for i := 1; time.Duration(i)*interval < end; i++ {
			if failAt > 0 && i > failAt {
				break
			}
			wantN = i
		}
		if len(st.pings) < wantN {
			vrt.Fail("C18|ping-missing|"+cls, "%s: %d pings (%v), at least %d expected while the session was up", cfg, len(st.pings), st.pings, wantN)
		}
		if failedAt >= 0 {
			if len(st.closes) != 1 {
				vrt.Fail("C18|dead-connection-not-closed-once", "%s: ping at %s failed, Close called %d times", cfg, failedAt, len(st.closes))
			}
		} else if len(st.closes) != 0 {
			vrt.Fail("C18|closed-without-failure", "%s: Close called %v without a failed ping", cfg, st.closes)
		}
		if !finished {
			vrt.Fail("C18|keepalive-still-running", "%s: the keepalive loop has not ended 5 intervals after the session end", cfg)
		}
	}
}

// (b) through a real client on the virtual network
func c18client(intervalS int64, mode0 string, k int, delta time.Duration) func() {
	return func() {
		mode := mode0
		vrt.Quiet(true)
		interval := secs(intervalS)
		// the server answers a stream close with its own and closes; everything else is driven by the harness
		so := sessOpts{keepalive: intervalS, served: func(sc *srvConn, r *negRec) { sc.idleSession(r) }}
		if mode0 == "pingfail-after-failed-resume" {
			so.serverCfg = func(k int, c *negCfg) {
				if k == 1 {
					inner := c.pick
					c.pick = func(step string, alts ...string) string {
						if step == "auth" {
							return "close"
						}
						return inner(step, alts...)
					}
				}
			}
		}
		s := newSess(so)
		if s.cl == nil {
			return
		}
		if intervalS == 0 {
			interval = 30 * time.Second
		}
		if mode == "hook-fails-reconnect" {
			// first Connect: the session is negotiated but the application's post-connect hook fails, so
			// Connect returns an error and the application disconnects; then it connects again at once
			s.cl.PostConnectHook = func() error { return errors.New("roster request failed") }
			if err := s.cl.Connect(); err == nil {
				vrt.Fail("C18|harness|hook", "Connect did not report the hook's error")
				return
			}
			_ = s.cl.Disconnect()
			vrt.WaitIdle()
			s.cl.PostConnectHook = nil
			mode = "after-failed-hook"
		}
		if err := s.cl.Connect(); err != nil {
			vrt.Fail("C18|harness|connect", "%v", err)
			return
		}
		vrt.WaitIdle()
		conn := s.conn(len(s.conns) - 1)
		t0 := vrt.VNow()
		nPing := 0
		dead := time.Duration(-1)
		timeoutKind := mode == "pingfail-timeout"
		if mode == "pingfail" || mode == "pingfail-timeout" {
			conn.raw.Peer().WriteFault = func(c *vnet.Conn, p []byte) (int, error) {
				if string(p) == "\n" {
					nPing++
				}
				if nPing >= k {
					if dead < 0 {
						dead = vrt.VNow()
					}
					if timeoutKind {
						// what a write to a vanished TCP peer returns: a net.Error that says Timeout() and Temporary()
						return 0, &net.OpError{Op: "write", Net: "tcp", Err: syscall.ETIMEDOUT}
					}
					return 0, errors.New("write: broken pipe")
				}
				return -1, nil
			}
			if mode == "pingfail-timeout" {
				mode = "pingfail"
			}
		}
		vrt.Quiet(false)
		end := time.Duration(-1)
		if mode == "drop" {
			vrt.Sleep(time.Duration(k)*interval + delta)
			end = vrt.VNow()
			conn.close()
		}
		var t1 time.Duration
		if mode == "drop-refused-resume" {
			vrt.Sleep(time.Duration(k)*interval + delta)
			s.w.Listeners["example.org:5222"].Accept = func(int, *vnet.Conn) (func(), error) { return nil, vnet.ErrRefused }
			conn.close()
			// the application (a StreamManager) retries at once, while the old session is still being torn down
			err := s.cl.Resume()
			vrt.Log("resume against a refusing server: err=%v", err != nil)
			vrt.Sleep(3 * interval)
			vrt.WaitIdle()
			return // the verdict function reports a panic
		}
		if mode == "pingfail-after-failed-resume" {
			// session 1 is lost; a first Resume is cut by the server in the middle of the negotiation (the client closes
			// that attempt itself); a second Resume succeeds. In that session the first keepalive cannot be written:
			// the connection must be closed and the loss reported like any other.
			conn.close()
			vrt.WaitIdle()
			if err := s.cl.Resume(); err == nil {
				vrt.Fail("C18|harness|attempt-did-not-fail", "")
				return
			}
			vrt.WaitIdle()
			if err := s.cl.Resume(); err != nil {
				vrt.Fail("C18|harness|reconnect", "%v", err)
				return
			}
			vrt.WaitIdle()
			c2 := s.conn(2)
			if c2 == nil {
				vrt.Fail("C18|harness|no-third-connection", "")
				return
			}
			nErr0, nDisc0 := len(s.errs), 0
			for _, ev := range s.events {
				if ev.State.state == StateDisconnected {
					nDisc0++
				}
			}
			failing := false
			c2.raw.Peer().WriteFault = func(c *vnet.Conn, p []byte) (int, error) {
				if string(p) == "\n" || failing {
					failing = true
					return 0, errors.New("write: broken pipe")
				}
				return -1, nil
			}
			vrt.Sleep(interval + 40*time.Second)
			vrt.WaitIdle()
			vrt.Quiet(true)
			cfg := fmt.Sprintf("interval=%s mode=%s", interval, mode)
			nDisc := 0
			for _, ev := range s.events {
				if ev.State.state == StateDisconnected {
					nDisc++
				}
			}
			if !c2.raw.PeerClosed() {
				vrt.Fail("C18|dead-connection-not-closed|after-failed-resume", "%s: the keepalive could not be written but the connection was never closed", cfg)
			}
			if nDisc-nDisc0 != 1 || len(s.errs)-nErr0 != 1 {
				vrt.Fail("C18|loss-not-reported-once|after-failed-resume", "%s: after the failed keepalive: %d error callbacks, %d Disconnected events", cfg, len(s.errs)-nErr0, nDisc-nDisc0)
			}
			return
		}
		if mode == "pingfail-twice" {
			// session 1: the first keepalive cannot be written; the keepalive closes the connection, which (the server
			// being silent) waits for the close time-out. One second later the server's end goes away, the loss is
			// reported and the application resumes: session 2 runs on the same transport while that first Close is
			// still waiting. Its first keepalive fails too: its connection must be closed and its loss reported.
			fail := func(c *vnet.Conn, p []byte) (int, error) { return 0, errors.New("write: broken pipe") }
			conn.raw.Peer().WriteFault = func(c *vnet.Conn, p []byte) (int, error) {
				if string(p) == "\n" || nPing > 0 {
					nPing++
					return fail(c, p)
				}
				return -1, nil
			}
			vrt.Sleep(interval + time.Second)
			conn.close()
			vrt.WaitIdle()
			if err := s.cl.Resume(); err != nil {
				vrt.Fail("C18|harness|reconnect", "%v", err)
				return
			}
			vrt.WaitIdle()
			c1 := s.conn(1)
			if c1 == nil {
				vrt.Fail("C18|harness|no-second-connection", "")
				return
			}
			n2 := 0
			c1.raw.Peer().WriteFault = func(c *vnet.Conn, p []byte) (int, error) {
				if string(p) == "\n" || n2 > 0 {
					n2++
					return fail(c, p)
				}
				return -1, nil
			}
			vrt.Sleep(interval + 40*time.Second) // the failure, then at most two close time-outs
			vrt.WaitIdle()
			vrt.Quiet(true)
			cfg := fmt.Sprintf("interval=%s mode=%s", interval, mode)
			nDisc := 0
			for _, ev := range s.events {
				if ev.State.state == StateDisconnected {
					nDisc++
				}
			}
			if !c1.raw.PeerClosed() {
				vrt.Fail("C18|dead-connection-not-closed|second-session", "%s: the first keepalive of the second session could not be written, but its connection was never closed (a Close of the first session's connection was still waiting for the server)", cfg)
			}
			if nDisc != 2 || len(s.errs) != 2 {
				vrt.Fail("C18|loss-not-reported-once|second-session", "%s: two sessions lost: %d error callbacks, %d Disconnected events", cfg, len(s.errs), nDisc)
			}
			return
		}
		if mode == "drop-resume-from-handler" {
			// the reconnection is made from inside the Disconnected handler, as StreamManager does: the receive
			// loop of the lost session is still unwinding when the loops of the new session start
			resumed := false
			var rerr error
			prev := s.cl.Handler
			s.cl.SetHandler(func(e Event) error {
				if prev != nil {
					prev(e)
				}
				if e.State.state == StateDisconnected && !resumed {
					resumed = true
					rerr = s.cl.Resume()
				}
				return nil
			})
			vrt.Sleep(time.Duration(k)*interval + delta)
			conn.close()
			vrt.WaitIdle()
			end = vrt.VNow()
			if !resumed || rerr != nil {
				vrt.Fail("C18|harness|reconnect", "Resume from the handler: called=%v err=%v", resumed, rerr)
				return
			}
			t1 = vrt.VNow()
		}
		if mode == "disconnect-reconnect" || mode == "server-close-reconnect" || mode == "drop-resume" {
			// the session ends through the stream-close handshake, then the same client connects again
			vrt.Sleep(time.Duration(k)*interval + delta)
			if mode == "disconnect-reconnect" {
				_ = s.cl.Disconnect()
			} else if mode == "drop-resume" {
				conn.close()
			} else {
				conn.send("</stream:stream>")
				vrt.WaitIdle()
				conn.close()
			}
			vrt.WaitIdle()
			end = vrt.VNow()
			var rerr error
			if mode == "drop-resume" {
				rerr = s.cl.Resume() // what a StreamManager calls
			} else {
				rerr = s.cl.Connect()
			}
			if rerr != nil {
				vrt.Fail("C18|harness|reconnect", "%v", rerr)
				return
			}
			vrt.WaitIdle()
			t1 = vrt.VNow()
		}
		vrt.Sleep(time.Duration(k+4)*interval + 20*time.Second)
		vrt.WaitIdle()
		vrt.Quiet(true)
		if t1 > 0 {
			// keepalives of the second session: exactly one per interval, counted from its start
			c1 := s.conn(1)
			if c1 == nil {
				vrt.Fail("C18|harness|no-second-connection", "")
				return
			}
			var p2 []time.Duration
			for _, rec := range *c1.raw.Peer().Log {
				if rec.ToSrv && string(rec.Data) == "\n" && !rec.Failed {
					p2 = append(p2, rec.At-t1)
				}
			}
			cfg := fmt.Sprintf("interval=%s mode=%s k=%d delta=%s", interval, mode, k, delta)
			mode := mode // local copy: the closure is run many times
			if delta == 0 {
				mode += "|end=on-tick"
			} else {
				mode += "|end=off-tick"
			}
			vrt.Log("second session pings %v", p2)
			for i, p := range p2 {
				if want := time.Duration(i+1) * interval; p != want {
					vrt.Fail("C18|ping-off-schedule|second-session|"+mode, "%s: keepalive #%d of the second session written %s after its start, want %s (all %v): a keepalive loop of the ended session is still running", cfg, i+1, p, want, p2)
					break
				}
			}
			total := time.Duration(k+4)*interval + 20*time.Second
			if want := int(total / interval); len(p2) != want {
				vrt.Fail("C18|ping-count|second-session|"+mode, "%s: %d keepalives in %s on the second session, want %d", cfg, len(p2), total, want)
			}
			return
		}
		cfg := fmt.Sprintf("interval=%s mode=%s k=%d delta=%s", interval, mode, k, delta)
		// pings seen by the server: whitespace-only writes
		var pings []time.Duration
		for _, rec := range *conn.raw.Peer().Log {
			if rec.ToSrv && string(rec.Data) == "\n" && !rec.Failed {
				pings = append(pings, rec.At-t0)
			}
		}
		vrt.Log("pings %v errs=%d events=%d", pings, len(s.errs), len(s.events))
		for i, p := range pings {
			if want := time.Duration(i+1) * interval; p != want {
				vrt.Fail("C18|ping-off-schedule", "%s: keepalive #%d written at %s, want %s (all %v)", cfg, i+1, p, want, pings)
			}
			if end >= 0 && p > end-t0 {
				vrt.Fail("C18|ping-after-session-end|client", "%s: keepalive written at %s, session ended at %s", cfg, p, end-t0)
			}
		}
		nDisc := 0
		for _, ev := range s.events {
			if ev.State.state == StateDisconnected {
				nDisc++
			}
		}
		if mode == "after-failed-hook" {
			total := time.Duration(k+4)*interval + 20*time.Second
			if want := int(total / interval); len(pings) != want {
				vrt.Fail("C18|ping-count|after-failed-hook", "%s: %d keepalives in %s on the session that followed a Connect whose post-connect hook failed, want %d (times %v): a keepalive loop of the failed attempt is still running", cfg, len(pings), total, want, pings)
			}
			n0 := 0
			for _, rec := range *s.conn(0).raw.Peer().Log {
				if rec.ToSrv && string(rec.Data) == "\n" {
					n0++
				}
			}
			if n0 != 0 {
				vrt.Fail("C18|ping-after-session-end|failed-hook", "%s: %d keepalives written on the connection of the failed Connect", cfg, n0)
			}
			return
		}
		switch mode {
		case "pingfail":
			if len(pings) != k-1 {
				vrt.Fail("C18|ping-count", "%s: %d keepalives reached the server, want %d before the failure", cfg, len(pings), k-1)
			}
			if !conn.raw.PeerClosed() {
				vrt.Fail("C18|dead-connection-not-closed", "%s: the keepalive write failed at %s but the connection was never closed", cfg, dead)
			}
			if len(s.errs) != 1 || nDisc != 1 {
				vrt.Fail("C18|loss-not-reported-once", "%s: after the failed keepalive: %d error callbacks, %d Disconnected events", cfg, len(s.errs), nDisc)
			}
		case "drop":
			wantN := 0
			for i := 1; time.Duration(i)*interval < end-t0; i++ {
				wantN = i
			}
			if len(pings) < wantN {
				vrt.Fail("C18|ping-missing|client", "%s: %d keepalives (%v), %d expected while the session was up", cfg, len(pings), pings, wantN)
			}
		case "idle":
			total := time.Duration(k+4)*interval + 20*time.Second
			if want := int(total / interval); len(pings) != want {
				vrt.Fail("C18|ping-count", "%s: %d keepalives in %s, want %d (one per interval)", cfg, len(pings), total, want)
			}
		}
		for _, a := range vrt.Alive() {
			if mode != "idle" && libSite.MatchString(a.Site) {
				vrt.Fail("C18|goroutine-left|"+a.Site, "%s: %s still alive (%s)", cfg, a.Site, a.Op)
			}
		}
	}
}

// c18sessions: one Client goes through several sessions, each ended in its own way, the next one started at once
// (as a StreamManager does). Per session: one keepalive per interval counted from its start, whatever the application
// sends meanwhile, and nothing after its end - on its own connection (which the server may have left open) or, through
// the shared transport, on the next one. What a session leaves behind for the next (a stop guard, a channel, a
// timestamp) shows in the second or third.
//
//	eof               the server's end goes away
//	stream-close-open the server ends the stream and leaves the socket open
//	disconnect        the application calls Disconnect
//	writes-die        (last session only) every write fails from some point on, reads stay silent: the next keepalive
//	                  must fail, close the connection and so get the loss reported
func c18sessions(intervalS int64, ends []string, delta time.Duration, traffic bool) func() {
	return func() {
		vrt.Quiet(true)
		interval := secs(intervalS)
		s := newSess(sessOpts{keepalive: intervalS, served: func(sc *srvConn, r *negRec) { sc.idleSession(r) }})
		if s.cl == nil {
			return
		}
		cfg := fmt.Sprintf("interval=%s sessions=%v delta=%s traffic=%v", interval, ends, delta, traffic)
		type sess struct {
			conn       *srvConn
			start, end time.Duration
			kind       string
		}
		var all []sess
		up := false
		if traffic {
			vrt.Go("app-traffic", func() {
				for i := 0; i < 40*len(ends); i++ {
					if up {
						_ = s.cl.Send(stanza.Message{Attrs: stanza.Attrs{To: "peer@example.org", Id: fmt.Sprintf("t%d", i)}, Body: "traffic"})
					}
					vrt.Sleep(interval / 3)
				}
			})
		}
		for i, kind := range ends {
			var err error
			if i > 0 && ends[i-1] == "eof" {
				err = s.cl.Resume()
			} else {
				err = s.cl.Connect()
			}
			if err != nil {
				vrt.Fail("C18|harness|connect", "%s: session %d: %v", cfg, i+1, err)
				return
			}
			vrt.WaitIdle()
			conn := s.conn(len(s.conns) - 1)
			cur := sess{conn: conn, start: vrt.VNow(), kind: kind}
			up = true
			vrt.Quiet(false)
			vrt.Sleep(2*interval + delta)
			nDisc0, nErr0 := 0, len(s.errs)
			for _, ev := range s.events {
				if ev.State.state == StateDisconnected {
					nDisc0++
				}
			}
			switch kind {
			case "eof":
				conn.close()
			case "stream-close-open":
				conn.send("</stream:stream>")
			case "disconnect":
				up = false
				_ = s.cl.Disconnect()
			case "writes-die":
				conn.raw.Peer().WriteFault = func(c *vnet.Conn, p []byte) (int, error) { return 0, errors.New("write: broken pipe") }
				vrt.Sleep(interval + 40*time.Second) // the next tick, then at most two close time-outs
			}
			vrt.WaitIdle()
			up = false
			vrt.Quiet(true)
			cur.end = vrt.VNow()
			all = append(all, cur)
			if kind == "writes-die" {
				nDisc := 0
				for _, ev := range s.events {
					if ev.State.state == StateDisconnected {
						nDisc++
					}
				}
				if !conn.raw.PeerClosed() {
					vrt.Fail("C18|dead-connection-not-closed|sessions", "%s: session %d: nothing can be written any more, and %s later the connection is still not closed", cfg, i+1, interval+40*time.Second)
				} else if nDisc-nDisc0 != 1 || len(s.errs)-nErr0 < 1 {
					vrt.Fail("C18|loss-not-reported-once|sessions", "%s: session %d: after the connection went dead: %d error callbacks, %d Disconnected events", cfg, i+1, len(s.errs)-nErr0, nDisc-nDisc0)
				}
			}
		}
		// the last session is over: let any loop left behind show itself
		vrt.Sleep(3*interval + time.Second)
		vrt.WaitIdle()
		for i, se := range all {
			var pings []time.Duration
			for _, rec := range *se.conn.raw.Peer().Log {
				if rec.ToSrv && string(rec.Data) == "\n" {
					if rec.Failed && se.kind == "writes-die" {
						continue // the attempt that reveals the loss
					}
					pings = append(pings, rec.At-se.start)
				}
			}
			up := se.end - se.start
			if se.kind == "writes-die" {
				up = 2*interval + delta
			}
			n := 0
			for _, p := range pings {
				switch {
				case p > up && se.kind != "writes-die":
					vrt.Fail("C18|ping-after-session-end|sessions|end="+se.kind, "%s: session %d ended %s after its start; a keepalive was written on its connection at %s (all %v)", cfg, i+1, up, p, pings)
				case p%interval != 0 || p == 0:
					vrt.Fail("C18|ping-off-schedule|sessions", "%s: session %d: keepalive written %s after its start (all %v): not a multiple of the interval - a loop of an earlier session is still running, or the ticks moved", cfg, i+1, p, pings)
				default:
					n++
				}
			}
			want := int(up / interval)
			if up%interval == 0 && se.kind != "writes-die" {
				want-- // ended on the tick: that keepalive may or may not have gone out
				if n == want+1 {
					n = want
				}
			}
			if n != want && se.kind != "writes-die" || se.kind == "writes-die" && n < want {
				vrt.Fail("C18|ping-count|sessions", "%s: session %d was up for %s: %d keepalives on schedule (%v), want %d", cfg, i+1, up, n, pings, want)
			}
		}
	}
}

func c18verdict(e *vrt.Exec) {
	if e.Panic != nil {
		vrt.Fail("C18|panic", "panic in T%d (%s): %s <- %s", e.Panic.Thread, e.Panic.Site, e.Panic.Value, trimStack(e.Panic.Stack))
	} else if e.Deadlock || e.HorizonHit {
		vrt.Fail("C18|hang", "deadlock=%v horizon=%v: %s", e.Deadlock, e.HorizonHit, e.BlockedSummary())
	}
}

func TestVerifC18(t *testing.T) {
	var scs []hx.Scenario
	bound := 2
	if hx.Thorough() {
		bound = 3
	}
	loopIntervals := []time.Duration{time.Millisecond, time.Second, 30 * time.Second}
	if !c18keepaliveCallable() {
		hx.Symbol("keepalive-signature-changed")
		loopIntervals = nil
	}
	for _, iv := range loopIntervals {
		for failAt := 0; failAt <= 4; failAt++ {
			for tick := 0; tick <= 4; tick++ {
				for _, d := range []time.Duration{-1, 0, 1} {
					if tick == 0 && d < 0 {
						continue
					}
					scs = append(scs, hx.Scenario{Name: fmt.Sprintf("loop/interval=%s/failAt=%d/quit=%d*i%+d", iv, failAt, tick, d),
						Opt: vrt.Options{Bound: bound, FreeSwitch: true}, Body: c18loop(iv, failAt, tick, d), Verdict: c18verdict})
				}
			}
		}
	}
	c18rb := 1
	if hx.Thorough() {
		c18rb = 3
	}
	for _, ivs := range []int64{0, 1, 7} {
		for k := 1; k <= 3; k++ {
			scs = append(scs, hx.Scenario{Name: fmt.Sprintf("client/interval=%ds/pingfail=%d", ivs, k), Opt: vrt.Options{Bound: 1, Horizon: 100000}, Body: c18client(ivs, "pingfail", k, 0), Verdict: c18verdict})
			scs = append(scs, hx.Scenario{Name: fmt.Sprintf("client/interval=%ds/pingfail-timeout=%d", ivs, k), Opt: vrt.Options{Bound: 1, Horizon: 100000}, Body: c18client(ivs, "pingfail-timeout", k, 0), Verdict: c18verdict})
			for _, d := range []time.Duration{-time.Millisecond, 0, time.Millisecond} {
				scs = append(scs, hx.Scenario{Name: fmt.Sprintf("client/interval=%ds/drop=%d*i%+d", ivs, k, d), Opt: vrt.Options{Bound: 1, Horizon: 100000}, Body: c18client(ivs, "drop", k, d), Verdict: c18verdict})
			}
		}
		for _, d := range []time.Duration{-time.Millisecond, 0, 300 * time.Millisecond} {
			scs = append(scs, hx.Scenario{Name: fmt.Sprintf("client/interval=%ds/disconnect-reconnect%+d", ivs, d), Opt: vrt.Options{Bound: c18rb, Horizon: 100000}, Body: c18client(ivs, "disconnect-reconnect", 1, d), Verdict: c18verdict})
			scs = append(scs, hx.Scenario{Name: fmt.Sprintf("client/interval=%ds/server-close-reconnect%+d", ivs, d), Opt: vrt.Options{Bound: 1, Horizon: 100000}, Body: c18client(ivs, "server-close-reconnect", 1, d), Verdict: c18verdict})
			scs = append(scs, hx.Scenario{Name: fmt.Sprintf("client/interval=%ds/drop-resume%+d", ivs, d), Opt: vrt.Options{Bound: 1, Horizon: 100000}, Body: c18client(ivs, "drop-resume", 1, d), Verdict: c18verdict})
			scs = append(scs, hx.Scenario{Name: fmt.Sprintf("client/interval=%ds/drop-resume-from-handler%+d", ivs, d), Opt: vrt.Options{Bound: 1, Horizon: 100000}, Body: c18client(ivs, "drop-resume-from-handler", 1, d), Verdict: c18verdict})
		}
		for _, d := range []time.Duration{-time.Millisecond, 0} {
			scs = append(scs, hx.Scenario{Name: fmt.Sprintf("client/interval=%ds/drop-refused-resume%+d", ivs, d), Opt: vrt.Options{Bound: c18rb + 1, Horizon: 100000, TouchOn: []string{"conn"}}, Body: c18client(ivs, "drop-refused-resume", 1, d), Verdict: c18verdict})
		}
		scs = append(scs, hx.Scenario{Name: fmt.Sprintf("client/interval=%ds/pingfail-after-failed-resume", ivs), Opt: vrt.Options{Bound: 1, Horizon: 100000}, Body: c18client(ivs, "pingfail-after-failed-resume", 1, 0), Verdict: c18verdict})
		if ivs > 0 {
			scs = append(scs, hx.Scenario{Name: fmt.Sprintf("client/interval=%ds/pingfail-twice", ivs), Opt: vrt.Options{Bound: 1, Horizon: 100000}, Body: c18client(ivs, "pingfail-twice", 1, 0), Verdict: c18verdict})
		}
		scs = append(scs, hx.Scenario{Name: fmt.Sprintf("client/interval=%ds/hook-fails-reconnect", ivs), Opt: vrt.Options{Bound: 1, Horizon: 100000}, Body: c18client(ivs, "hook-fails-reconnect", 2, 0), Verdict: c18verdict})
		scs = append(scs, hx.Scenario{Name: fmt.Sprintf("client/interval=%ds/idle", ivs), Opt: vrt.Options{Bound: 1, Horizon: 100000}, Body: c18client(ivs, "idle", 2, 0), Verdict: c18verdict})
	}
	// several sessions of one client
	kinds := []string{"eof", "stream-close-open", "disconnect"}
	for _, a := range kinds {
		for _, b := range kinds {
			for _, c := range kinds {
				for _, d := range []time.Duration{0, 7 * time.Second} {
					ends := []string{a, b, c}
					scs = append(scs, hx.Scenario{Name: fmt.Sprintf("sessions/%s,%s,%s/delta=%s", a, b, c, d), Opt: vrt.Options{Bound: 1, Horizon: 200000}, Body: c18sessions(30, ends, d, false), Verdict: c18verdict})
				}
			}
			scs = append(scs, hx.Scenario{Name: fmt.Sprintf("sessions/%s,%s/traffic", a, b), Opt: vrt.Options{Bound: 1, Horizon: 200000}, Body: c18sessions(30, []string{a, b}, 7*time.Second, true), Verdict: c18verdict})
			scs = append(scs, hx.Scenario{Name: fmt.Sprintf("sessions/%s,%s,writes-die/traffic", a, b), Opt: vrt.Options{Bound: 1, Horizon: 200000}, Body: c18sessions(30, []string{a, b, "writes-die"}, 7*time.Second, true), Verdict: c18verdict})
		}
		scs = append(scs, hx.Scenario{Name: fmt.Sprintf("sessions/%s,writes-die", a), Opt: vrt.Options{Bound: 1, Horizon: 200000}, Body: c18sessions(30, []string{a, "writes-die"}, 7*time.Second, false), Verdict: c18verdict})
	}
	scs = append(scs, hx.Scenario{Name: "sessions/writes-die/traffic", Opt: vrt.Options{Bound: 1, Horizon: 200000}, Body: c18sessions(30, []string{"writes-die"}, 7*time.Second, true), Verdict: c18verdict})
	if hx.Main("C18", scs) == 2 {
		t.Fatal("internal error")
	}
}
