//go:build verif

package xmpp

import (
	"errors"
	"fmt"
	"strings"
	"testing"
	"time"

	"gosrc.io/xmpp/stanza"
	"verif/hx"
	"verif/vnet"
	"verif/vrt"
)

// C13: under a StreamManager every loss of an established connection leads to exactly
// one new working session; permanent errors end the retry loop; Stop makes Run return.

type c13cfg struct {
	sm               bool     // stream management with resumption
	faults           []string // per loss: drop | drop-after-stanza | graceful-close | stream-error-conflict | stream-error-other
	refused          []int    // per loss: dials refused before the server accepts again
	attempt          []string // per loss: ok | transient (close after features once, then ok) | permanent (auth failure)
	stop             bool     // Stop at the end
	slowPost         bool     // the PostConnect callback takes 5 s (e.g. it waits for a roster answer)
	stopWhileRefused bool     // after the last loss the server refuses every dial; Stop is called during the retry loop
}

func (c c13cfg) name() string {
	return fmt.Sprintf("sm=%v/faults=%s/refused=%v/attempt=%s/stop=%v/slowpost=%v", c.sm, strings.Join(c.faults, ","), c.refused, strings.Join(c.attempt, ","), c.stop, c.slowPost) + map[bool]string{true: "/stop-while-refused", false: ""}[c.stopWhileRefused]
}

func c13body(cfg c13cfg) func() {
	return func() {
		vrt.Quiet(true)
		jitterChoices := 0
		vrt.RandHook = func(n int) int {
			// both extremes of the jitter are explored for the first few waits of an execution; after
			// that the longest wait is taken (an endless retry loop must not make the choice tree endless)
			jitterChoices++
			if jitterChoices > 4 {
				return n - 1
			}
			if vrt.ChooseFree("jitter", 2) == 1 {
				return n - 1
			}
			return 0
		}
		defer func() { vrt.RandHook = nil }()
		w := vnet.NewWorld()
		var recs []*negRec
		var conns []*srvConn
		var dialPlan []string // per dial: refuse | ok | transient | permanent
		dialPlan = append(dialPlan, "ok")
		for i := range cfg.faults {
			for j := 0; j < cfg.refused[i]; j++ {
				dialPlan = append(dialPlan, "refuse")
			}
			switch cfg.attempt[i] {
			case "transient":
				dialPlan = append(dialPlan, "transient", "ok")
			case "permanent", "permanent-text", "permanent-expired-text", "permanent-disabled":
				dialPlan = append(dialPlan, cfg.attempt[i])
			default:
				dialPlan = append(dialPlan, "ok")
			}
		}
		dials := 0
		var dialTimes []time.Duration
		accepted := map[int]string{}                                                     // conn index -> plan
		listen(w, "example.org:5222", func(k int) *negCfg { return nil }, &recs, &conns) // replaced below
		w.Listeners["example.org:5222"].Accept = func(k int, c *vnet.Conn) (func(), error) {
			plan := "ok"
			if dials < len(dialPlan) {
				plan = dialPlan[dials]
			} else if cfg.stopWhileRefused {
				plan = "refuse"
			}
			dials++
			dialTimes = append(dialTimes, vrt.VNow())
			hx.Symbol("dial=" + plan)
			if plan == "refuse" {
				return nil, vnet.ErrRefused
			}
			sc := newSrvConn(len(conns), c)
			conns = append(conns, sc)
			accepted[len(conns)-1] = plan
			r := &negRec{phase: "pre-auth"}
			recs = append(recs, r)
			n := &negCfg{domain: "example.org", starttls: "absent", mechs: []string{"PLAIN"}, session: "absent", sm: cfg.sm,
				smID: fmt.Sprintf("smid-%d", len(conns)-1), pick: func(step string, alts ...string) string {
					if plan == "transient" && step == "header3" {
						return "close"
					}
					if strings.HasPrefix(plan, "permanent") && step == "auth" {
						return "failure" + strings.TrimPrefix(plan, "permanent")
					}
					return alts[0]
				}}
			n.established = func(s *srvConn, r *negRec) {
				vrt.Block("srv parked: harness drives", func() bool { return false })
			}
			return func() { sc.serve(n, r) }, nil
		}
		router := NewRouter()
		var routed []string
		router.NewRoute().HandlerFunc(func(_ Sender, p stanza.Packet) { routed = append(routed, describePacket(p)) })
		conf := &Config{TransportConfiguration: TransportConfiguration{Address: "example.org:5222", Domain: "example.org"},
			Jid: "user@example.org/r", Credential: Password("secret"), Insecure: true, StreamManagementEnable: cfg.sm, KeepaliveInterval: time.Hour}
		conf.streamManagementResume = cfg.sm
		for _, f := range cfg.faults {
			if f == "write-side-dead" {
				// the keepalive is what notices this fault: it has to tick within the 30 minutes given to a loss
				conf.KeepaliveInterval = 10 * time.Minute
			}
		}
		var errs int
		cl, err := NewClient(conf, router, func(error) { errs++ })
		if err != nil {
			vrt.Fail("C13|harness|newclient", "%v", err)
			return
		}
		postConnects := 0
		mgr := NewStreamManager(cl, func(s Sender) {
			postConnects++
			vrt.Log("postconnect #%d", postConnects)
			if cfg.slowPost && postConnects > 1 {
				vrt.Sleep(5 * time.Second)
			}
		})
		runReturned := false
		var runErr error
		vrt.Go("run", func() {
			runErr = mgr.Run()
			runReturned = true
			vrt.Log("Run returned err=%v", runErr != nil)
		})
		vrt.WaitIdle()
		desc := cfg.name()
		// established sessions so far, by the server's records
		sessions := func() []int {
			var idx []int
			for i, r := range recs {
				if r.Established {
					idx = append(idx, i)
				}
			}
			return idx
		}
		if len(sessions()) != 1 || postConnects != 1 {
			vrt.Fail("C13|initial-session", "%s: after Run started: %d established sessions, %d PostConnect calls", desc, len(sessions()), postConnects)
			return
		}
		// working: the server's message is routed and a client Send shows up on this connection
		working := func(ci int, tag string, clause string) bool {
			sc := conns[ci]
			sc.drainNew()
			before := len(routed)
			sc.send(fmt.Sprintf("<message from='peer@example.org' id='probe-%s'><body>x</body></message>", tag))
			vrt.WaitIdle()
			got := false
			for _, r := range routed[before:] {
				if r == "message:probe-"+tag {
					got = true
				}
			}
			if !got {
				vrt.Fail("C13|session-does-not-receive|"+clause, "%s: a message sent by the server on connection %d (%s) never reached the handler (routed %v)", desc, ci, tag, routed[before:])
				return false
			}
			_ = cl.Send(stanza.Message{Attrs: stanza.Attrs{To: "peer@example.org", Id: "out-" + tag}, Body: "y"})
			vrt.WaitIdle()
			sent := false
			for _, u := range sc.drainNew() {
				if u.kind == "element" && strings.Contains(u.raw, "out-"+tag) {
					sent = true
				}
			}
			if !sent {
				vrt.Fail("C13|session-does-not-send|"+clause, "%s: Send after the session on connection %d (%s) did not appear on that connection", desc, ci, tag)
				return false
			}
			return true
		}
		cur := 0
		if !working(cur, "s0", "initial") {
			return
		}
		if hx.Thorough() {
			// from here on (losses, retry loops, reconnections) single departures from the default
			// schedule are explored too
			vrt.Quiet(false)
		}
		for li, fault := range cfg.faults {
			// keys name the oracle clause and the kind of fault; the other dimensions are in the detail
			clause := fmt.Sprintf("fault=%s", fault)
			sc := conns[cur]
			nSess, nPC, nDial := len(sessions()), postConnects, dials
			hx.Symbol("fault=" + fault)
			switch fault {
			case "drop":
				sc.close()
			case "drop-then-drop-during-postconnect":
				// the connection drops; the client reconnects at once and its PostConnect callback is
				// still running when the new connection drops too
				sc.close()
				vrt.Sleep(time.Second)
				if n := sessions(); len(n) > nSess {
					conns[n[len(n)-1]].close()
					nSess++ // that short-lived session is expected
					nPC++
				}
			case "drop-after-stanza":
				sc.send("<message from='peer@example.org' id='last'><body>bye</body></message>")
				sc.close()
			case "write-side-dead":
				// a half-dead peer: nothing comes in any more and every write of the client fails. Only the
				// keepalive can notice; it closes the connection, which ends the receive loop
				sc.raw.Peer().WriteFault = func(c *vnet.Conn, p []byte) (int, error) {
					return 0, errors.New("write: broken pipe")
				}
			case "graceful-close":
				sc.send("</stream:stream>")
				vrt.WaitIdle()
				sc.close()
			case "stream-error-conflict":
				sc.send("<stream:error><conflict xmlns='urn:ietf:params:xml:ns:xmpp-streams'/></stream:error></stream:stream>")
				vrt.WaitIdle()
				sc.close()
			case "stream-error-other":
				sc.send("<stream:error><system-shutdown xmlns='urn:ietf:params:xml:ns:xmpp-streams'/></stream:error></stream:stream>")
				vrt.WaitIdle()
				sc.close()
			}
			vrt.Sleep(30 * time.Minute) // horizon: back-off waits are far below
			vrt.WaitIdle()
			newSess := sessions()[nSess:]
			// consecutive attempts of one retry loop are at most min(cap, 20ms * 2^i) apart (full jitter below that)
			for i := nDial; i+1 < len(dialTimes); i++ {
				gap := dialTimes[i+1] - dialTimes[i]
				limit := time.Duration(20<<uint(i-nDial)) * time.Millisecond
				if limit > 3*time.Minute {
					limit = 3 * time.Minute
				}
				if gap > limit+31*time.Second { // + up to two close-handshake time-outs (15 s each) spent inside a failed attempt
					vrt.Fail("C13|retry-later-than-backoff|"+clause, "%s: attempt %d after the loss came %s after attempt %d, the back-off allows at most %s", desc, i-nDial+1, gap, i-nDial, limit)
				}
			}
			vrt.Log("loss %d (%s): new sessions %v dials %d postconnects %d", li, fault, newSess, dials-nDial, postConnects-nPC)
			if fault == "stream-error-conflict" {
				// kicked by another session: reconnecting is explicitly not wanted; nothing is asserted beyond no crash
				if len(newSess) > 1 {
					vrt.Fail("C13|several-sessions-after-loss|"+clause, "%s: %d sessions established after one loss", desc, len(newSess))
				}
				break
			}
			if strings.HasPrefix(cfg.attempt[li], "permanent") {
				// exactly the refused dials plus the rejected attempt, then silence
				if want := cfg.refused[li] + 1; dials-nDial != want {
					vrt.Fail("C13|permanent-error-dials|"+clause, "%s: after the loss %d connection attempts were made within 30 min, want %d (the last one rejected for good)", desc, dials-nDial, want)
				}
				if len(newSess) != 0 {
					vrt.Fail("C13|session-after-permanent-error|"+clause, "%s: a session was established although the credentials are rejected", desc)
				}
				break
			}
			if fault == "stream-error-conflict" {
				// kicked by another session: reconnecting is explicitly not wanted; nothing is asserted beyond no crash
				if len(newSess) > 1 {
					vrt.Fail("C13|several-sessions-after-loss|"+clause, "%s: %d sessions established after one loss", desc, len(newSess))
				}
				break
			}
			if len(newSess) == 0 {
				vrt.Fail("C13|no-new-session|"+clause, "%s: 30 min after the loss no new session was established (%d connection attempts, times %v)", desc, dials-nDial, dialTimes[nDial:])
				break
			}
			if len(newSess) > 1 {
				vrt.Fail("C13|several-sessions-after-loss|"+clause, "%s: %d sessions established after one loss (connections %v)", desc, len(newSess), newSess)
				break
			}
			ns := newSess[0]
			if cfg.sm && !recs[ns].Resumed {
				vrt.Fail("C13|not-resumed-although-possible|"+clause, "%s: the new session was bound afresh (server steps %v) although the previous one was resumable", desc, recs[ns].Steps)
			}
			if !cfg.sm && recs[ns].Resumed {
				vrt.Fail("C13|resumed-without-sm", "%s", desc)
			}
			if postConnects-nPC != 1 {
				vrt.Fail("C13|postconnect-count|"+clause, "%s: PostConnect ran %d times for the new session", desc, postConnects-nPC)
			}
			cur = ns
			if !working(cur, fmt.Sprintf("s%d", li+1), clause) {
				break
			}
		}
		if cfg.stopWhileRefused {
			// one more loss; from now on every dial is refused; the manager is retrying when Stop is called
			conns[cur].close()
			vrt.Sleep(10 * time.Second)
			vrt.WaitIdle()
			before := dials
			mgr.Stop()
			vrt.Sleep(20 * time.Minute)
			vrt.WaitIdle()
			if !runReturned {
				vrt.Fail("C13|run-does-not-return-after-stop|while-retrying", "%s: Stop was called while the manager was retrying against a server that refuses connections; Run has not returned 20 min later (%d further dials)", desc, dials-before)
			}
			return
		}
		if cfg.stop {
			permanent := false
			for _, a := range cfg.attempt {
				permanent = permanent || strings.HasPrefix(a, "permanent")
			}
			if runReturned && !permanent {
				// Run is documented to wait until the manager is stopped (or gives up on an unrecoverable error)
				vrt.Fail("C13|run-returned-before-stop", "%s: Run returned although the manager was neither stopped nor faced with a permanent error", desc)
			}
			before := dials
			mgr.Stop()
			vrt.Sleep(time.Minute)
			vrt.WaitIdle()
			if !runReturned {
				vrt.Fail("C13|run-does-not-return-after-stop", "%s: Stop was called but Run has not returned", desc)
			}
			// the end of the session that Stop brings about is not a loss: nothing connects again
			vrt.Sleep(30 * time.Minute)
			vrt.WaitIdle()
			if dials != before {
				vrt.Fail("C13|reconnects-after-stop", "%s: %d connection attempts were made after Stop", desc, dials-before)
			}
		}
	}
}

func c13verdict(e *vrt.Exec) {
	if e.Panic != nil {
		vrt.Fail("C13|panic", "panic in T%d (%s): %s <- %s", e.Panic.Thread, e.Panic.Site, e.Panic.Value, trimStack(e.Panic.Stack))
	} else if e.Deadlock || e.HorizonHit {
		vrt.Fail("C13|hang", "the harness thread is blocked (deadlock=%v horizon=%v): %s", e.Deadlock, e.HorizonHit, e.BlockedSummary())
	}
}

func TestVerifC13(t *testing.T) {
	faults := []string{"drop", "drop-after-stanza", "graceful-close", "write-side-dead", "stream-error-other", "stream-error-conflict"}
	var scs []hx.Scenario
	add := func(c c13cfg) {
		scs = append(scs, hx.Scenario{Name: c.name(), Opt: vrt.Options{Bound: thoroughBound(1), Horizon: 30000}, Body: c13body(c), Verdict: c13verdict})
	}
	for _, sm := range []bool{false, true} {
		for _, f := range faults {
			for _, m := range []int{0, 1, 2} {
				for _, at := range []string{"ok", "transient", "permanent"} {
					add(c13cfg{sm: sm, faults: []string{f}, refused: []int{m}, attempt: []string{at}, stop: true})
				}
			}
		}
		// two (thorough: three) losses in a row
		for _, f1 := range faults[:5] {
			for _, f2 := range faults[:5] {
				add(c13cfg{sm: sm, faults: []string{f1, f2}, refused: []int{0, 1}, attempt: []string{"ok", "ok"}, stop: true})
				if hx.Thorough() {
					for _, f3 := range faults[:5] {
						add(c13cfg{sm: sm, faults: []string{f1, f2, f3}, refused: []int{1, 0, 2}, attempt: []string{"ok", "transient", "ok"}, stop: true})
					}
				}
			}
		}
		// the other shapes of a rejection of the credentials
		for _, at := range []string{"permanent-text", "permanent-expired-text", "permanent-disabled"} {
			add(c13cfg{sm: sm, faults: []string{"drop"}, refused: []int{0}, attempt: []string{at}, stop: true})
			add(c13cfg{sm: sm, faults: []string{"graceful-close"}, refused: []int{1}, attempt: []string{at}, stop: true})
		}
		// a long life: twenty losses in a row, each followed by a new session (whatever counts sessions, requests or
		// attempts crosses 9, 15 and 16 on the way)
		long := c13cfg{sm: sm, stop: true}
		mixed := c13cfg{sm: sm, stop: true}
		for i := 0; i < 20; i++ {
			long.faults, long.refused, long.attempt = append(long.faults, "drop"), append(long.refused, 0), append(long.attempt, "ok")
			mixed.faults, mixed.refused, mixed.attempt = append(mixed.faults, faults[i%5]), append(mixed.refused, i%2), append(mixed.attempt, "ok")
		}
		add(long)
		add(mixed)
		add(c13cfg{sm: sm, stop: true})
		add(c13cfg{sm: sm, stopWhileRefused: true})
		add(c13cfg{sm: sm, faults: []string{"drop"}, refused: []int{1}, attempt: []string{"ok"}, stopWhileRefused: true})
		add(c13cfg{sm: sm, faults: []string{"drop-then-drop-during-postconnect"}, refused: []int{0}, attempt: []string{"ok"}, stop: true, slowPost: true})
		add(c13cfg{sm: sm, faults: []string{"drop", "drop-then-drop-during-postconnect"}, refused: []int{0, 0}, attempt: []string{"ok", "ok"}, stop: true, slowPost: true})
	}
	if hx.Main("C13", scs) == 2 {
		t.Fatal("internal error")
	}
}
