//go:build verif

package xmpp

import (
	"encoding/json"
	"fmt"
	"os"
	"sort"
	"strings"
	"testing"
	"time"

	"verif/hx"
	"verif/vrt"

	"gosrc.io/xmpp/stanza"
)

// C05: every inbound stanza reaches the router exactly once.

type c05sym struct {
	name   string
	wire   func(n int, size int) string
	routed func(n int) string // expected catch-all log entry ("" = not a stanza: not asserted)
	isR    bool
	nonza  string // for a non-stanza element: how the catch-all route's log shows it (it is a received packet too)
}

func c05pad(size int) string {
	if size <= 1 {
		return "x"
	}
	return strings.Repeat("p", size)
}

var c05alphabet = []c05sym{
	{name: "message", wire: func(n, sz int) string {
		// with foreign content whose element names are those of HTML void elements and have content of their own (an
		// Atom entry, a bookmark): a decoder set up leniently, for HTML, reads these differently
		return fmt.Sprintf("<message from='peer@example.org/x' id='m%d' type='chat'><entry xmlns='http://www.w3.org/2005/Atom'><link rel='alternate'>http://example.org/%d</link><meta><br>deep</br></meta></entry><body>%s &lt;%d&gt;</body></message>", n, n, c05pad(sz), n)
	}, routed: func(n int) string { return fmt.Sprintf("message:m%d", n) }},
	{name: "presence", wire: func(n, sz int) string {
		return fmt.Sprintf("<presence from='peer@example.org/x' id='p%d'><status>%s</status></presence>", n, c05pad(sz))
	}, routed: func(n int) string { return fmt.Sprintf("presence:p%d", n) }},
	{name: "iq-get", wire: func(n, sz int) string {
		return fmt.Sprintf("<iq from='example.org' id='g%d' type='get'><query xmlns='urn:unknown:%s'/></iq>", n, c05pad(sz%1000))
	}, routed: func(n int) string { return fmt.Sprintf("iq:g%d:get", n) }},
	{name: "iq-set", wire: func(n, sz int) string {
		return fmt.Sprintf("<iq from='example.org' id='s%d' type='set'><query xmlns='jabber:iq:roster'><item jid='a@b'><group>Friends</group><img xmlns='urn:example:avatar'>aGk=</img></item></query></iq>", n)
	}, routed: func(n int) string { return fmt.Sprintf("iq:s%d:set", n) }},
	{name: "iq-result", wire: func(n, sz int) string { return fmt.Sprintf("<iq from='example.org' id='r%d' type='result'/>", n) },
		routed: func(n int) string { return fmt.Sprintf("iq:r%d:result", n) }},
	{name: "iq-error", wire: func(n, sz int) string {
		return fmt.Sprintf("<iq from='example.org' id='e%d' type='error'><error type='cancel'><item-not-found xmlns='urn:ietf:params:xml:ns:xmpp-stanzas'/></error></iq>", n)
	}, routed: func(n int) string { return fmt.Sprintf("iq:e%d:error", n) }},
	{name: "r", wire: func(n, sz int) string { return "<r xmlns='urn:xmpp:sm:3'/>" }, isR: true, nonza: "r"},
	{name: "a", wire: func(n, sz int) string { return "<a xmlns='urn:xmpp:sm:3' h='1'/>" }, nonza: "a:1"},
	{name: "features", wire: func(n, sz int) string {
		return "<stream:features><bind xmlns='urn:ietf:params:xml:ns:xmpp-bind'/></stream:features>"
	}, nonza: "stream:features"},
	{name: "space", wire: func(n, sz int) string { return " \n\t" }},
}

// c05split cuts s according to the segmentation mode.
func c05split(s string, mode string) []string {
	switch mode {
	case "whole":
		return []string{s}
	case "halves":
		return []string{s[:len(s)/2], s[len(s)/2:]}
	case "thirds":
		a, b := len(s)/3, 2*len(s)/3
		return []string{s[:a], s[a:b], s[b:]}
	case "first-byte":
		return []string{s[:1], s[1:]}
	case "last-byte":
		return []string{s[:len(s)-1], s[len(s)-1:]}
	case "bytes":
		var p []string
		for i := 0; i < len(s); i++ {
			p = append(p, s[i:i+1])
		}
		return p
	}
	return []string{s}
}

type c05cfg struct {
	logger      bool // client with the traffic logger on (reads go through streamLogger)
	comp        bool
	sm          bool
	seg         string
	size        int
	drop        bool // connection lost right after the last element
	gate        bool // the handler entered first waits for a second one to be entered (client only)
	eofWithData bool // with drop: the read that returns the last bytes also reports the end of the connection
	noResume    bool // stream management enabled by the server without resumption (<enabled/> with an id, no resume attribute)
	idleFirst   bool // keepalive every 7 s; the session is left idle for 13 s (one keepalive and 6 s more) before anything arrives
}

func c05body(cfg c05cfg, first []int, maxLen int) func() {
	return func() {
		vrt.Quiet(true)
		seq := append([]int{}, first...)
		for len(seq) < maxLen {
			k := vrt.ChooseFree("next", len(c05alphabet)+1)
			if k == 0 {
				break
			}
			seq = append(seq, k-1)
		}
		gateWant := 0
		for _, k := range seq {
			if c05alphabet[k].routed != nil {
				gateWant++
			}
		}
		var routed *[]string
		var sc func() *srvConn
		var connect func() error
		if cfg.comp {
			end, err := c07component(func(s *srvConn) { vrt.Block("srv parked", func() bool { return false }) })
			if err != nil {
				vrt.Fail("C05|harness|component", "%v", err)
				return
			}
			routed, sc, connect = end.routed, end.sc, end.connect
		} else {
			ka := int64(3600)
			if cfg.idleFirst {
				ka = 7
			}
			so := sessOpts{sm: cfg.sm, smResume: cfg.sm, keepalive: ka, noCatchAll: cfg.gate}
			if cfg.noResume {
				so.enableAns = "enabled-id-no-resume"
			}
			s := newSess(so)
			if s.cl == nil {
				return
			}
			if cfg.gate {
				// "concurrently for a client": the handler that is entered first does not return before a second
				// one has been entered (when the history has two stanzas). A client that hands stanzas to the
				// router one after the other, or holds a lock across a handler, never gets there.
				entered := 0
				s.router.NewRoute().HandlerFunc(func(_ Sender, p stanza.Packet) {
					d := describePacket(p)
					s.routed = append(s.routed, d)
					vrt.Log("routed %s", d)
					if !(strings.HasPrefix(d, "message:") || strings.HasPrefix(d, "presence:") || strings.HasPrefix(d, "iq:")) {
						return
					}
					entered++
					if entered == 1 && gateWant >= 2 {
						vrt.Block("first handler waits for a second handler to be entered", func() bool { return entered >= 2 })
					}
				})
			}
			if cfg.logger {
				f, err := os.CreateTemp("", "verif-c05-*.log")
				if err != nil {
					vrt.Fail("C05|harness|tempfile", "%v", err)
					return
				}
				defer func() { f.Close(); os.Remove(f.Name()) }()
				s.cl.transport.LogTraffic(f)
			}
			routed, sc, connect = &s.routed, func() *srvConn { return s.conn(0) }, s.cl.Connect
		}
		if err := connect(); err != nil {
			vrt.Fail("C05|harness|connect", "%v", err)
			return
		}
		vrt.WaitIdle()
		if cfg.idleFirst {
			vrt.Sleep(13 * time.Second)
			vrt.WaitIdle()
		}
		conn := sc()
		conn.drainNew()
		conn.pending = nil
		vrt.Quiet(false)
		var want []string
		nR := 0
		var names []string
		var stream strings.Builder
		for i, k := range seq {
			sym := c05alphabet[k]
			names = append(names, sym.name)
			stream.WriteString(sym.wire(i, cfg.size))
			if sym.routed != nil {
				want = append(want, sym.routed(i))
			}
			if sym.isR {
				nR++
			}
		}
		hist := fmt.Sprintf("%v", names)
		for _, part := range c05split(stream.String(), cfg.seg) {
			if part != "" {
				conn.send(part)
				if cfg.seg != "whole" {
					vrt.WaitIdle()
				}
			}
		}
		if cfg.drop {
			conn.raw.Peer().EOFWithData = cfg.eofWithData
			conn.close()
		}
		vrt.WaitIdle()
		vrt.Quiet(true)
		// what reached the router
		var got []string
		for _, r := range *routed {
			if strings.HasPrefix(r, "message:") || strings.HasPrefix(r, "presence:") || strings.HasPrefix(r, "iq:") {
				got = append(got, r)
			}
		}
		who := "client"
		if cfg.comp {
			who = "component"
		}
		// non-stanza elements are received packets as well: each reaches the router once
		wantNonza, gotNonza := map[string]int{}, map[string]int{}
		for _, k := range seq {
			if nz := c05alphabet[k].nonza; nz != "" {
				wantNonza[nz]++
			}
		}
		for _, r := range *routed {
			if _, ok := wantNonza[r]; ok || r == "r" || r == "a:1" || r == "stream:features" {
				gotNonza[r]++
			}
		}
		for _, nz := range []string{"r", "a:1", "stream:features"} {
			if gotNonza[nz] != wantNonza[nz] && !(cfg.drop && gotNonza[nz] < wantNonza[nz] && false) {
				vrt.Fail("C05|non-stanza-element-routing|"+who+"|"+nz, "%s sm=%v, inbound %s (seg=%s drop=%v): %q reached the router %d times, received %d times (routed %v)", who, cfg.sm, hist, cfg.seg, cfg.drop, nz, gotNonza[nz], wantNonza[nz], *routed)
			}
		}
		if cfg.comp {
			if strings.Join(got, ",") != strings.Join(want, ",") {
				cls := "order"
				if len(got) < len(want) {
					cls = "lost"
				} else if len(got) > len(want) {
					cls = "duplicated"
				}
				vrt.Fail("C05|component-routing-"+cls, "component, inbound %s (seg=%s drop=%v): routed %v, want in order %v", hist, cfg.seg, cfg.drop, got, want)
			}
		} else {
			g, w := append([]string{}, got...), append([]string{}, want...)
			sort.Strings(g)
			sort.Strings(w)
			if strings.Join(g, ",") != strings.Join(w, ",") {
				cls := "lost"
				if len(g) > len(w) {
					cls = "duplicated"
				}
				after := ""
				for _, n := range names {
					if n == "r" || n == "a" || n == "features" {
						after = "|with-" + n
						break
					}
				}
				vrt.Fail("C05|client-routing-"+cls+after, "client sm=%v, inbound %s (seg=%s drop=%v): routed %v, want (any order) %v", cfg.sm, hist, cfg.seg, cfg.drop, got, want)
			}
			if !cfg.drop {
				us := conn.drainNew()
				nA := 0
				for _, u := range us {
					if u.kind == "element" && u.name == "a" {
						nA++
					}
				}
				if nA != nR {
					vrt.Fail("C05|ack-requests-not-answered", "client sm=%v, inbound %s: %d <r/> received, %d <a/> written", cfg.sm, hist, nR, nA)
				}
			}
		}
		vrt.Log("%s %s -> %v", who, hist, got)
	}
}

func c05verdict(cfg c05cfg) func(e *vrt.Exec) {
	return func(e *vrt.Exec) {
		if e.Panic != nil {
			cls := "other"
			if strings.Contains(e.Panic.Value, "nil pointer") {
				cls = "nil-pointer"
			}
			vrt.Fail(fmt.Sprintf("C05|panic|%s|sm=%v|comp=%v", cls, cfg.sm, cfg.comp), "panic in T%d (%s): %s <- %s; observations %v", e.Panic.Thread, e.Panic.Site, e.Panic.Value, trimStack(e.Panic.Stack), e.Obs)
		} else if cfg.gate && e.Deadlock {
			vrt.Fail("C05|client-routing-not-concurrent", "a handler that waits for the next stanza's handler to be entered waits forever: %s", e.BlockedSummary())
		} else if e.Deadlock || e.HorizonHit {
			vrt.Fail("C05|hang", "deadlock=%v horizon=%v: %s", e.Deadlock, e.HorizonHit, e.BlockedSummary())
		}
	}
}

func TestVerifC05(t *testing.T) {
	if wc := os.Getenv("VERIF_WS_CASE"); wc != "" {
		var c wsCase
		if err := json.Unmarshal([]byte(wc), &c); err != nil {
			t.Fatal(err)
		}
		wsChild(c)
		return
	}
	maxLen, bound := 2, 1
	segs := []string{"whole", "halves", "first-byte", "last-byte"}
	sizes := []int{1}
	if hx.Thorough() {
		maxLen, bound = 3, 2
		segs = []string{"whole", "halves", "thirds", "first-byte", "last-byte"}
	}
	var scs []hx.Scenario
	for _, comp := range []bool{false, true} {
		for _, sm := range []bool{false, true} {
			if comp && sm {
				continue
			}
			for _, seg := range segs {
				for _, drop := range []bool{false, true} {
					for a := range c05alphabet {
						cfg := c05cfg{comp: comp, sm: sm, seg: seg, size: sizes[0], drop: drop}
						if !comp && !sm && (seg == "whole" || seg == "halves") {
							lc := cfg
							lc.logger = true
							if drop {
								ec := lc
								ec.eofWithData = true
								scs = append(scs, hx.Scenario{Name: fmt.Sprintf("logger/seg=%s/drop=%v/eof-with-data/first=%s", seg, drop, c05alphabet[a].name),
									Opt: vrt.Options{Bound: bound, Horizon: 100000}, Body: c05body(ec, []int{a}, maxLen), Verdict: c05verdict(ec)})
							}
							scs = append(scs, hx.Scenario{Name: fmt.Sprintf("logger/seg=%s/drop=%v/first=%s", seg, drop, c05alphabet[a].name),
								Opt: vrt.Options{Bound: bound, Horizon: 100000}, Body: c05body(lc, []int{a}, maxLen), Verdict: c05verdict(lc)})
						}
						if drop && seg == "whole" {
							ec := cfg
							ec.eofWithData = true
							scs = append(scs, hx.Scenario{Name: fmt.Sprintf("comp=%v/sm=%v/seg=%s/drop=%v/eof-with-data/first=%s", comp, sm, seg, drop, c05alphabet[a].name),
								Opt: vrt.Options{Bound: bound, Horizon: 100000}, Body: c05body(ec, []int{a}, maxLen), Verdict: c05verdict(ec)})
						}
						scs = append(scs, hx.Scenario{Name: fmt.Sprintf("comp=%v/sm=%v/seg=%s/drop=%v/first=%s", comp, sm, seg, drop, c05alphabet[a].name),
							Opt: vrt.Options{Bound: bound, Horizon: 100000}, Body: c05body(cfg, []int{a}, maxLen), Verdict: c05verdict(cfg)})
					}
				}
			}
		}
	}
	for a := range c05alphabet {
		cfg := c05cfg{sm: true, seg: "whole", size: sizes[0], noResume: true}
		scs = append(scs, hx.Scenario{Name: fmt.Sprintf("sm-without-resumption/first=%s", c05alphabet[a].name),
			Opt: vrt.Options{Bound: bound, Horizon: 100000}, Body: c05body(cfg, []int{a}, maxLen), Verdict: c05verdict(cfg)})
	}
	for a := range c05alphabet {
		cfg := c05cfg{sm: true, seg: "whole", size: 1, idleFirst: true}
		scs = append(scs, hx.Scenario{Name: fmt.Sprintf("idle-first/first=%s", c05alphabet[a].name),
			Opt: vrt.Options{Bound: 0, Horizon: 100000}, Body: c05body(cfg, []int{a}, 2), Verdict: c05verdict(cfg)})
	}
	for a := range c05alphabet {
		for _, sm := range []bool{false, true} {
			cfg := c05cfg{sm: sm, seg: "whole", size: 1, gate: true}
			scs = append(scs, hx.Scenario{Name: fmt.Sprintf("gate/sm=%v/first=%s", sm, c05alphabet[a].name),
				Opt: vrt.Options{Bound: bound, Horizon: 100000}, Body: c05body(cfg, []int{a}, maxLen), Verdict: c05verdict(cfg)})
		}
	}
	// sizes around the read buffer and byte-at-a-time delivery: single elements
	big := []int{32767, 32768, 32769, 100000}
	if !hx.Thorough() {
		big = []int{32768, 100000}
	}
	for _, comp := range []bool{false, true} {
		for _, sz := range big {
			for _, a := range []int{0, 1} {
				cfg := c05cfg{comp: comp, seg: "thirds", size: sz}
				scs = append(scs, hx.Scenario{Name: fmt.Sprintf("big/comp=%v/size=%d/%s", comp, sz, c05alphabet[a].name),
					Opt: vrt.Options{Bound: 0, Horizon: 100000}, Body: c05body(cfg, []int{a, 2}, 2), Verdict: c05verdict(cfg)})
			}
		}
		for a := range c05alphabet {
			cfg := c05cfg{comp: comp, seg: "bytes", size: 1}
			scs = append(scs, hx.Scenario{Name: fmt.Sprintf("bytes/comp=%v/%s", comp, c05alphabet[a].name),
				Opt: vrt.Options{Bound: 0, Horizon: 200000}, Body: c05body(cfg, []int{a, 0}, 2), Verdict: c05verdict(cfg)})
		}
	}
	scs = append(scs, wsScenarios()...)
	if hx.Main("C05", scs) == 2 {
		t.Fatal("internal error")
	}
}
