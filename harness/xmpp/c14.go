//go:build verif

package xmpp

import (
	"bytes"
	"encoding/base64"
	"encoding/xml"
	"errors"
	"fmt"
	"strings"
	"testing"

	"golang.org/x/xerrors"
	"gosrc.io/xmpp/stanza"
	"verif/hx"
	"verif/vnet"
	"verif/vrt"
)

// C14: SASL mechanism choice and PLAIN payload.

type c14sock struct {
	out   bytes.Buffer
	reply *strings.Reader
	wr    int
}

func (s *c14sock) Write(p []byte) (int, error) { s.wr++; return s.out.Write(p) }
func (s *c14sock) Read(p []byte) (int, error)  { return s.reply.Read(p) }

var c14replies = map[string]string{
	"success":     "<success xmlns='urn:ietf:params:xml:ns:xmpp-sasl'/>",
	"failure":     "<failure xmlns='urn:ietf:params:xml:ns:xmpp-sasl'><not-authorized/></failure>",
	"failure-txt": "<failure xmlns='urn:ietf:params:xml:ns:xmpp-sasl'><credentials-expired/><text>x</text></failure>",
	"other":       "<message xmlns='jabber:client'><body>x</body></message>",
	"challenge":   "<challenge xmlns='urn:ietf:params:xml:ns:xmpp-sasl'>AAAA</challenge>",
	"features":    "<stream:features xmlns:stream='http://etherx.jabber.org/streams'/>",
	"malformed":   "<success xmlns='urn:ietf:params:xml:ns:xmpp-sasl'></failure>",
	"truncated":   "<success xmlns='urn:ietf:params:xml:ns:xmpp-sa",
	"closed":      "",
}

// every stream error condition of RFC 6120 4.9.3, as the answer to <auth/>
var c14streamConditions = []string{"bad-format", "bad-namespace-prefix", "conflict", "connection-timeout", "host-gone", "host-unknown",
	"improper-addressing", "internal-server-error", "invalid-from", "invalid-namespace", "invalid-xml", "not-authorized",
	"not-well-formed", "policy-violation", "remote-connection-failed", "reset", "resource-constraint", "restricted-xml",
	"see-other-host", "system-shutdown", "undefined-condition", "unsupported-encoding", "unsupported-feature",
	"unsupported-stanza-type", "unsupported-version"}

var c14otherReplies = []string{"success", "failure", "failure-txt", "other", "challenge", "features", "malformed", "truncated", "closed",
	"stream-error-empty", "stream-close", "iq-result", "presence", "sm-enabled", "sm-answer", "sm-request", "handshake", "success-other-ns", "proceed"}

func init() {
	for _, cnd := range c14streamConditions {
		c14replies["stream-error/"+cnd] = "<stream:error xmlns:stream='http://etherx.jabber.org/streams'><" + cnd + " xmlns='urn:ietf:params:xml:ns:xmpp-streams'/></stream:error>"
		c14otherReplies = append(c14otherReplies, "stream-error/"+cnd)
	}
	// success with additional data (RFC 6120 6.4.6): "=" is zero-length data
	c14replies["success-data-empty"] = "<success xmlns='urn:ietf:params:xml:ns:xmpp-sasl'>=</success>"
	c14replies["success-data"] = "<success xmlns='urn:ietf:params:xml:ns:xmpp-sasl'>dj1ybUY5cHFWOFM3c3VBb1pXamE0ZEpSa0ZzS1E9</success>"
	c14otherReplies = append(c14otherReplies, "success-data-empty", "success-data")
	c14replies["stream-error-empty"] = "<stream:error xmlns:stream='http://etherx.jabber.org/streams'/>"
	c14replies["stream-close"] = "</stream:stream>"
	c14replies["iq-result"] = "<iq xmlns='jabber:client' type='result' id='x'/>"
	c14replies["presence"] = "<presence xmlns='jabber:client'/>"
	c14replies["sm-enabled"] = "<enabled xmlns='urn:xmpp:sm:3' id='x'/>"
	c14replies["sm-answer"] = "<a xmlns='urn:xmpp:sm:3' h='0'/>"
	c14replies["sm-request"] = "<r xmlns='urn:xmpp:sm:3'/>"
	c14replies["handshake"] = "<handshake xmlns='jabber:component:accept'/>"
	c14replies["success-other-ns"] = "<success xmlns='urn:other'/>"
	c14replies["proceed"] = "<proceed xmlns='urn:ietf:params:xml:ns:xmpp-tls'/>"
}

func c14strClass(s string) string {
	switch {
	case s == "":
		return "empty"
	case strings.ContainsRune(s, 0):
		return "nul"
	case strings.ContainsAny(s, "<>&\"'"):
		return "xml-meta"
	case !isASCII(s):
		return "non-ascii"
	case len(s) > 100:
		return "long"
	}
	return "plain"
}

func isASCII(s string) bool {
	for i := 0; i < len(s); i++ {
		if s[i] >= 0x80 {
			return false
		}
	}
	return true
}

// c14checkAuth verifies the bytes written for an authentication attempt.
// want=="" means nothing may have been written.
func c14checkAuth(written string, offered []string, cred Credential, user, secret string) (key, detail string) {
	// reference: PLAIN for passwords, X-OAUTH2 for tokens (from the property text, not from the library's value)
	refMechs := []string{"PLAIN"}
	if c14kindOf[cred.secret+"\x00"+strings.Join(cred.mechanisms, ",")] == "oauth" || c14currentKind == "oauth" {
		refMechs = []string{"X-OAUTH2"}
	}
	us := splitAll([]byte(written))
	var els []unit
	for _, u := range us {
		if u.kind != "space" {
			els = append(els, u)
		}
	}
	common := ""
	for _, m := range refMechs {
		for _, o := range offered {
			if o == m {
				common = m
				break
			}
		}
		if common != "" {
			break
		}
	}
	if common == "" {
		if len(written) != 0 {
			return "wrote-without-common-mechanism|kind=" + c14currentKind, fmt.Sprintf("offered %v, credential kind %s supports %v, yet %q was written", offered, c14currentKind, refMechs, written)
		}
		return "", ""
	}
	if len(els) != 1 || els[0].kind != "element" || els[0].name != "auth" {
		return "not-one-auth-element", fmt.Sprintf("written %q", written)
	}
	raw := els[0].raw
	// independent token walk of the element
	d := xml.NewDecoder(strings.NewReader(raw))
	var mech, text string
	depth := 0
	for {
		t, err := d.RawToken()
		if err != nil {
			break
		}
		switch x := t.(type) {
		case xml.StartElement:
			depth++
			if depth == 1 {
				if x.Name.Local != "auth" {
					return "not-one-auth-element", raw
				}
				ns := ""
				for _, a := range x.Attr {
					if a.Name.Local == "mechanism" {
						mech = a.Value
					}
					if a.Name.Local == "xmlns" {
						ns = a.Value
					}
				}
				if ns != "urn:ietf:params:xml:ns:xmpp-sasl" {
					return "auth-wrong-namespace", raw
				}
			} else {
				return "auth-has-child-elements", raw
			}
		case xml.EndElement:
			depth--
		case xml.CharData:
			if depth == 1 {
				text += string(x)
			}
		}
	}
	if mech != common {
		return "wrong-mechanism", fmt.Sprintf("offered %v, credential %v: auth names %q, want %q", offered, cred.mechanisms, mech, common)
	}
	dec, err := base64.StdEncoding.DecodeString(text)
	if err != nil {
		return "payload-not-base64", fmt.Sprintf("payload %q: %v", text, err)
	}
	want := "\x00" + user + "\x00" + secret
	if string(dec) != want {
		return "payload-wrong|user=" + c14strClass(user) + "|secret=" + c14strClass(secret), fmt.Sprintf("decoded payload %q, want %q", dec, want)
	}
	return "", ""
}

var c14kindOf = map[string]string{}
var c14currentKind = "password"

func c14permanent(err error) bool {
	var ce ConnError
	return xerrors.As(err, &ce) && ce.Permanent
}

func c14direct(c *hx.Ctx, user, secret string, cred Credential, offered []string, reply string) {
	sock := &c14sock{reply: strings.NewReader(c14replies[reply])}
	var f stanza.StreamFeatures
	f.Mechanisms.Mechanism = offered
	err := authSASL(sock, xml.NewDecoder(sock), f, user, cred)
	c.Step(1)
	in := fmt.Sprintf("user=%q secret=%q cred=%v offered=%v reply=%s", user, secret, cred.mechanisms, offered, reply)
	if len(user)+len(secret) > 400 {
		short := func(s string) string {
			if len(s) > 40 {
				return fmt.Sprintf("%q... (%d bytes)", s[:40], len(s))
			}
			return fmt.Sprintf("%q", s)
		}
		in = fmt.Sprintf("user=%s secret=%s cred=%v offered=%v reply=%s", short(user), short(secret), cred.mechanisms, offered, reply)
	}
	c.Eval(in + "=>" + sock.out.String() + fmt.Sprint(err != nil))
	if k, d := c14checkAuth(sock.out.String(), offered, cred, user, secret); k != "" {
		c.Fail("C14|"+k, in, "%s: %s", in, d)
		return
	}
	if sock.out.Len() == 0 {
		if err == nil || !c14permanent(err) {
			c.Fail("C14|no-common-mechanism-not-permanent", in, "%s: error %v", in, err)
		}
		return
	}
	switch reply {
	case "success", "success-data-empty", "success-data":
		if err != nil {
			c.Fail("C14|success-rejected", in, "%s: %v", in, err)
		}
	case "failure", "failure-txt":
		if err == nil || !c14permanent(err) {
			c.Fail("C14|failure-not-permanent-error", in, "%s: error %v", in, err)
		}
	default:
		if err == nil {
			rc := reply
			if i := strings.Index(rc, "/"); i > 0 {
				rc = rc[:i]
			}
			c.Fail("C14|authenticated-without-success|reply="+rc, in, "%s: authSASL returned nil", in)
		}
	}
}

func c14mechLists() [][]string {
	names := []string{"PLAIN", "X-OAUTH2", "SCRAM-SHA-1", "ANONYMOUS", "plain"}
	lists := [][]string{{}}
	for _, a := range names {
		lists = append(lists, []string{a})
		for _, b := range names {
			lists = append(lists, []string{a, b})
			for _, c := range names {
				lists = append(lists, []string{a, b, c})
			}
		}
	}
	return lists
}

var c14strings = []string{"", "a", "a b", "é", "😀", `<&>"'`, "\x00", "a\x00b", "\xff\xfe", strings.Repeat("x", 300), "]]>", " lead", "trail ", "a\nb",
	// line breaks at the ends (a secret read from a file), and nothing but a line break
	"s3cr3t\n", "s3cr3t\r\n", "\n", "\ts3cr3t",
	// characters that text normalisations change or drop (SASLprep / NFKC / NFC / case folding): non-ASCII spaces,
	// soft hyphen, zero-width space, BOM, ligature, roman numeral, full-width letter, combining accent, upper case
	"pass\u00a0phrase", "a\u3000b", "auto\u00adgenerated", "a\u200bb", "\ufeffx", "\ufb00", "\u2168", "\uff41", "e\u0301", "PassWord", "\u212b"}

type c14out struct {
	err  error
	rec  **negRec
	done bool
}

func TestVerifC14(t *testing.T) {
	var scs []hx.Scenario
	creds := []struct {
		name string
		mk   func(string) Credential
	}{{"password", Password}, {"oauth", OAuthToken}}
	for _, cr := range creds {
		cr := cr
		scs = append(scs, hx.Scenario{Name: "direct/strings/" + cr.name, Run: func(c *hx.Ctx) {
			c14currentKind = cr.name
			for _, u := range c14strings {
				for _, s := range c14strings {
					c14direct(c, u, s, cr.mk(s), []string{"X-OAUTH2", "PLAIN"}, "success")
				}
			}
			c.Sample(map[string]string{"user": `<&>"'`, "secret": "a\x00b", "cred": cr.name})
		}})
		scs = append(scs, hx.Scenario{Name: "direct/lengths/" + cr.name, Run: func(c *hx.Ctx) {
			// every length of local part and secret: all small ones (every base64 padding class, every short buffer),
			// and the lengths around every power of two up to 128 KiB (a token is easily several kB): a fixed-size
			// buffer, a length kept in a narrow integer, a chunked encoder show at one of these. The text varies along
			// its length, so that a cut, a shift or a repetition changes the payload.
			c14currentKind = cr.name
			text := func(n int) string {
				b := make([]byte, n)
				for i := range b {
					b[i] = "abcdefghijklmnopqrstuvwxyzABCDEFGHIJKLMNOPQRSTUVWXYZ0123456789-._~+/="[(i*7+i/67)%69]
				}
				return string(b)
			}
			var lens []int
			for n := 0; n <= 70; n++ {
				lens = append(lens, n)
			}
			maxPow := 14
			if hx.Thorough() {
				maxPow = 17
			}
			for k := 7; k <= maxPow; k++ {
				for d := -3; d <= 2; d++ {
					lens = append(lens, 1<<k+d)
				}
			}
			for _, ul := range []int{0, 1, 4, 31, 1021, 1023} {
				for _, sl := range lens {
					c14direct(c, text(ul), text(sl), cr.mk(text(sl)), []string{"X-OAUTH2", "PLAIN"}, "success")
				}
			}
			for _, ul := range lens {
				c14direct(c, text(ul), "s3cr3t", cr.mk("s3cr3t"), []string{"X-OAUTH2", "PLAIN"}, "success")
			}
			c.Sample(map[string]any{"user_len": 1021, "secret_len": 1025, "cred": cr.name})
		}})
		scs = append(scs, hx.Scenario{Name: "direct/mechanisms/" + cr.name, Run: func(c *hx.Ctx) {
			c14currentKind = cr.name
			for _, l := range c14mechLists() {
				for rp := range c14replies {
					_ = rp
				}
				for _, rp := range c14otherReplies {
					c14direct(c, "user", "sec", cr.mk("sec"), l, rp)
				}
			}
			c.Sample(map[string]any{"offered": []string{"SCRAM-SHA-1", "PLAIN", "PLAIN"}, "cred": cr.name, "reply": "challenge"})
		}})
	}
	// through Connect on the virtual network: features parsing, real transport
	users := []string{"a", "user.name", "éß", "😀", "u&x"}
	secrets := []string{"s", "a b", "é", `<&>"'`, "a\x00b", "]]>"}
	mechs := [][]string{{"PLAIN"}, {"X-OAUTH2"}, {"SCRAM-SHA-1", "PLAIN"}, {"X-OAUTH2", "PLAIN"}, {"SCRAM-SHA-1"}, {}, {"PLAIN", "PLAIN"}}
	for _, cr := range creds {
		for mi, ml := range mechs {
			cr, ml := cr, ml
			name := fmt.Sprintf("connect/%s/mechs=%d", cr.name, mi)
			scs = append(scs, hx.Scenario{Name: name, Opt: vrt.Options{Bound: 0}, Body: func() {
				c14currentKind = cr.name
				ui := vrt.ChooseFree("user", len(users))
				si := vrt.ChooseFree("secret", len(secrets))
				user, secret := users[ui], secrets[si]
				// the stream's domain: left to default to the JID's, given and equal, given and different
				// (a virtual host): the authentication identity stays the local part of the JID
				domain := []string{"example.org", "", "xmpp.hosting.example"}[vrt.ChooseFree("domain", 3)]
				// an earlier, complete session of the same client against a server that offered other mechanisms:
				// what was offered then says nothing about what is offered now
				prior := vrt.ChooseFree("earlier-session", 2) == 1
				first := 0
				if prior {
					first = 1
				}
				w := vnet.NewWorld()
				var recs []*negRec
				listen(w, "example.org:5222", func(k int) *negCfg {
					if k < first {
						return &negCfg{domain: "example.org", starttls: "absent", mechs: []string{"PLAIN", "X-OAUTH2", "ANONYMOUS"}, session: "absent", pick: defaultPick}
					}
					return &negCfg{domain: "example.org", starttls: "absent", mechs: ml, session: "absent", pick: func(step string, alts ...string) string {
						if step == "auth" {
							return alts[vrt.ChooseFree("srv:auth", 3)] // success, failure, stream-error
						}
						return alts[0]
					}}
				}, &recs, nil)
				cfg := &Config{TransportConfiguration: TransportConfiguration{Address: "example.org:5222", Domain: domain},
					Jid: user + "@example.org/r", Credential: cr.mk(secret), Insecure: true}
				cl, err := NewClient(cfg, NewRouter(), func(error) {})
				if err != nil {
					vrt.Fail("C14|harness|newclient", "%v", err)
					return
				}
				if prior {
					if err := cl.Connect(); err != nil {
						vrt.Fail("C14|harness|earlier-session", "%v", err)
						return
					}
					vrt.WaitIdle()
					cl.Disconnect()
					vrt.WaitIdle()
				}
				err = cl.Connect()
				vrt.Log("user=%q secret=%q domain=%q earlier-session=%v err=%v", user, secret, domain, prior, err != nil)
				if len(recs) <= first {
					vrt.Fail("C14|harness|no-conn", "no connection")
					return
				}
				r := recs[first]
				vrt.Log("auth=%s", r.AuthRaw)
				in := fmt.Sprintf("user=%q secret=%q domain=%q cred=%s offered=%v", user, secret, domain, cr.name, ml)
				if prior {
					in += " after an earlier session in which [PLAIN X-OAUTH2 ANONYMOUS] were offered"
				}
				cred := cr.mk(secret)
				if k, d := c14checkAuth(r.AuthRaw, ml, cred, user, secret); k != "" {
					vrt.Fail("C14|connect|"+k, "%s: %s", in, d)
				}
				if r.AuthRaw == "" {
					if err == nil || !c14permanent(err) {
						vrt.Fail("C14|connect|no-common-mechanism-not-permanent", "%s: error %v", in, err)
					}
				} else if r.FailAnswer == "failure" && (err == nil || !c14permanent(err)) {
					vrt.Fail("C14|connect|failure-not-permanent-error", "%s: error %v", in, err)
				} else if r.FailStep == "auth" && err == nil {
					vrt.Fail("C14|connect|authenticated-without-success", "%s: Connect returned nil after %s", in, r.FailAnswer)
				} else if r.FailStep == "" && err != nil {
					vrt.Fail("C14|connect|success-rejected", "%s: %v", in, err)
				}
				if err == nil {
					cl.Disconnect()
				}
				vrt.WaitIdle()
			}, Verdict: func(e *vrt.Exec) {
				if e.Panic != nil {
					vrt.Fail("C14|panic", "%s %s", e.Panic.Value, trimStack(e.Panic.Stack))
				} else if e.Deadlock {
					vrt.Fail("C14|hang", "blocked: %s", e.BlockedSummary())
				}
			}})
		}
	}
	_ = errors.New
	scs = append(scs, c14wsScenarios()...)
	if hx.Main("C14", scs) == 2 {
		t.Fatal("internal error")
	}
}
