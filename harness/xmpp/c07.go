//go:build verif

package xmpp

import (
	"context"
	"errors"
	"fmt"
	"strings"
	"testing"
	"time"

	"gosrc.io/xmpp/stanza"
	"verif/hx"
	"verif/vnet"
	"verif/vrt"
)

// C07: IQ responses reach the SendIQ caller exactly once; duplicates and races harmless.

type c07plan struct {
	comp     bool
	reqs     int      // 1 or 2 concurrent requests
	sameID   bool     // clashing ids
	behave   []string // per caller: recv | cancel | abandon
	respond  string   // once | twice | foreign-then-once | late | none
	seqReuse bool     // one caller, two requests one after the other with the same id under one context
	reuseCtx string   // with seqReuse: "" = one context for both; "first-cancelled" = the first request's context is
	// cancelled when its answer is in, the second has its own; "first-expires" = the first context (5 s) is left to
	// expire while the second request, with its own context, is still waiting for its answer (which comes at 10 s)
	handlerAsks bool // the ordinary iq route reacts to a stray IQ by sending a request of its own
	// ctxKind: "" = a context with a deadline (60 s); "cancel-only" = context.WithCancel, no deadline: it ends only
	// when the caller cancels it
	ctxKind string
	// answer: "" = an empty result; "error-full" = type error with an <error/> child; "error-bare" = type error and
	// nothing else; "error-echo" = type error echoing the payload of the request, no <error/> child (RFC 6120 8.3.1
	// makes the echo optional, and servers differ in what they put in); "result-payload" = a result with a payload
	answer string
}

func (p c07plan) name() string {
	who := "client"
	if p.comp {
		who = "component"
	}
	extra := ""
	if p.seqReuse {
		extra += "/seq-reuse"
		if p.reuseCtx != "" {
			extra += "=" + p.reuseCtx
		}
	}
	if p.handlerAsks {
		extra += "/handler-asks"
	}
	if p.ctxKind != "" {
		extra += "/ctx=" + p.ctxKind
	}
	if p.answer != "" {
		extra += "/answer=" + p.answer
	}
	return fmt.Sprintf("%s/reqs=%d/sameid=%v/behave=%s/respond=%s%s", who, p.reqs, p.sameID, strings.Join(p.behave, "+"), p.respond, extra)
}

type c07end struct {
	sender interface {
		SendIQ(ctx context.Context, iq *stanza.IQ) (chan stanza.IQ, error)
	}
	router  *Router
	routed  *[]string
	sc      func() *srvConn
	connect func() error
}

// c07component builds a component against a scripted server (handshake accepted).
func c07component(served func(sc *srvConn)) (*c07end, error) {
	return c07componentH(served, nil)
}

func c07componentH(served func(sc *srvConn), onPacket func(s Sender, p stanza.Packet)) (*c07end, error) {
	w := vnet.NewWorld()
	var conn *srvConn
	w.Listen("example.org:5347", &vnet.Listener{Accept: func(k int, c *vnet.Conn) (func(), error) {
		s := newSrvConn(k, c)
		conn = s
		return func() {
			u := s.read()
			if u.kind == "prolog" {
				u = s.read()
			}
			s.send("<?xml version='1.0'?><stream:stream xmlns='jabber:component:accept' xmlns:stream='http://etherx.jabber.org/streams' from='comp.example.org' id='sid1'>")
			u = s.read()
			if u.name != "handshake" {
				s.close()
				return
			}
			s.send("<handshake/>")
			served(s)
		}, nil
	}})
	router := NewRouter()
	routed := &[]string{}
	router.NewRoute().HandlerFunc(func(sd Sender, p stanza.Packet) {
		*routed = append(*routed, describePacket(p))
		vrt.Log("routed %s", describePacket(p))
		if onPacket != nil {
			onPacket(sd, p)
		}
	})
	opts := ComponentOptions{TransportConfiguration: TransportConfiguration{Address: "example.org:5347", Domain: "comp.example.org"},
		Domain: "comp.example.org", Secret: "s"}
	comp, err := NewComponent(opts, router, func(error) { vrt.Log("errorhandler") })
	if err != nil {
		return nil, err
	}
	return &c07end{sender: comp, router: router, routed: routed, sc: func() *srvConn { return conn }, connect: comp.Connect}, nil
}

func c07body(p c07plan) func() {
	return func() {
		vrt.Quiet(true)
		release := false // for respond=late
		var pendingLate []string
		served := func(sc *srvConn) {
			answered := map[string]int{}
			for {
				u := sc.read()
				if u.kind == "eof" || u.kind == "close" || vrt.Killed() {
					return
				}
				if u.kind != "element" || u.name != "iq" || attr(u.raw, "type") != "get" {
					continue
				}
				id := attr(u.raw, "id")
				res := fmt.Sprintf("<iq type='result' id='%s' from='example.org'/>", id)
				if id != "final" && id != "hreq" {
					switch p.answer {
					case "error-full":
						res = fmt.Sprintf("<iq type='error' id='%s' from='example.org'><error type='cancel'><item-not-found xmlns='urn:ietf:params:xml:ns:xmpp-stanzas'/></error></iq>", id)
					case "error-bare":
						res = fmt.Sprintf("<iq type='error' id='%s' from='example.org'/>", id)
					case "error-echo":
						res = fmt.Sprintf("<iq type='error' id='%s' from='example.org'><query xmlns='http://jabber.org/protocol/disco#info'/></iq>", id)
					case "result-no-from":
						// the server answers for the account itself or simply leaves the address out (RFC 6120 8.1.2.1: an
						// answer without from comes from the server / the account)
						res = fmt.Sprintf("<iq type='result' id='%s'/>", id)
					case "result-from-other-form":
						res = fmt.Sprintf("<iq type='result' id='%s' from='Example.ORG/server'/>", id)
					case "result-payload":
						res = fmt.Sprintf("<iq type='result' id='%s' from='example.org'><query xmlns='http://jabber.org/protocol/disco#info'><feature var='urn:example:f'/></query></iq>", id)
					}
				}
				answered[id]++
				if id == "final" || id == "hreq" {
					sc.send(res) // requests of the probe phase / of the handler are simply answered
					continue
				}
				if p.reuseCtx == "first-expires" && answered[id] == 2 {
					pendingLate = append(pendingLate, res)
					continue
				}
				if p.reuseCtx == "first-given-up" && answered[id] == 1 {
					continue // the first request is never answered; the application gives it up and asks again
				}
				switch p.respond {
				case "once":
					sc.send(res)
				case "twice":
					sc.send(res + res)
				case "foreign-then-once":
					sc.send("<iq type='result' id='nobody-asked' from='example.org'/>" + res)
				case "late":
					pendingLate = append(pendingLate, res)
				case "none":
				}
			}
		}
		var end *c07end
		asked := false
		onPacket := func(sd Sender, pk stanza.Packet) {
			iq, ok := pk.(*stanza.IQ)
			if !p.handlerAsks || !ok || asked || (iq.Type != stanza.IQTypeResult && iq.Type != stanza.IQTypeError) {
				return
			}
			asked = true
			ctx, _ := vrt.WithTimeout(vrt.Background(), 60*time.Second)
			q := &stanza.IQ{Attrs: stanza.Attrs{Type: stanza.IQTypeGet, Id: "hreq", To: "example.org"}, Payload: &stanza.DiscoInfo{}}
			_, _ = sd.SendIQ(ctx, q)
		}
		if p.comp {
			var err error
			end, err = c07componentH(served, onPacket)
			if err != nil {
				vrt.Fail("C07|harness|component", "%v", err)
				return
			}
		} else {
			s := newSess(sessOpts{keepalive: 3600, noCatchAll: true, served: func(sc *srvConn, r *negRec) { served(sc) }})
			if s.cl == nil {
				return
			}
			s.router.NewRoute().HandlerFunc(func(sd Sender, pk stanza.Packet) {
				s.routed = append(s.routed, describePacket(pk))
				vrt.Log("routed %s", describePacket(pk))
				onPacket(sd, pk)
			})
			end = &c07end{sender: s.cl, router: s.router, routed: &s.routed, sc: func() *srvConn { return s.conn(0) }, connect: s.cl.Connect}
		}
		if err := end.connect(); err != nil {
			vrt.Fail("C07|harness|connect", "%v", err)
			return
		}
		vrt.WaitIdle()
		vrt.Quiet(false)
		_ = release

		type callerRes struct {
			first  string
			got    []string
			closed bool
			err    error
			done   bool
		}
		results := make([]*callerRes, p.reqs)
		for i := 0; i < p.reqs; i++ {
			i := i
			results[i] = &callerRes{}
			id := fmt.Sprintf("req%d", i)
			if p.sameID {
				id = "req0"
			}
			behave := p.behave[i]
			caller := func() {
				res := results[i]
				ctx, cancel := vrt.WithTimeout(vrt.Background(), 60*time.Second)
				if p.ctxKind == "cancel-only" {
					ctx, cancel = vrt.WithCancel(vrt.Background())
				}
				if p.reuseCtx == "first-expires" {
					ctx, cancel = vrt.WithTimeout(vrt.Background(), 5*time.Second)
				}
				iq, _ := stanza.NewIQ(stanza.Attrs{Type: stanza.IQTypeGet, Id: id, To: "example.org"})
				iq.Payload = &stanza.DiscoInfo{}
				ch, err := end.sender.SendIQ(ctx, iq)
				if err != nil {
					res.err = err
					res.done = true
					cancel()
					return
				}
				if p.seqReuse {
					// first request: wait for its answer, then ask again at once with the same id
					if p.reuseCtx == "first-given-up" {
						// ... or do not wait: the request is given up (cancelled just below) and made again at once
						res.first = id
					} else {
						c0 := vrt.RecvCase((<-chan stanza.IQ)(ch))
						c1 := vrt.RecvCase(ctx.Done())
						if vrt.Select(false, c0, c1) == 0 && c0.Ok {
							res.first = c0.Val.Id
						}
					}
					switch p.reuseCtx {
					case "first-cancelled", "first-given-up":
						cancel()
						ctx, cancel = vrt.WithTimeout(vrt.Background(), 60*time.Second)
					case "first-expires":
						_ = cancel // never called, as in the example of SendIQ's documentation
						ctx, cancel = vrt.WithTimeout(vrt.Background(), 60*time.Second)
					}
					iq2, _ := stanza.NewIQ(stanza.Attrs{Type: stanza.IQTypeGet, Id: id, To: "example.org"})
					iq2.Payload = &stanza.DiscoInfo{}
					ch, err = end.sender.SendIQ(ctx, iq2)
					if err != nil {
						res.err = err
						res.done = true
						cancel()
						return
					}
				}
				switch behave {
				case "abandon":
					res.done = true
					return // never reads, never cancels (the context times out after 60s)
				case "cancel":
					cancel()
				}
				for {
					c0 := vrt.RecvCase((<-chan stanza.IQ)(ch))
					c1 := vrt.RecvCase(ctx.Done())
					k := vrt.Select(false, c0, c1)
					if k == 0 {
						if !c0.Ok {
							res.closed = true
							break
						}
						res.got = append(res.got, c0.Val.Id)
						vrt.Log("caller%d got %s", i, c0.Val.Id)
						continue
					}
					break
				}
				// after the context ended: whatever is still in flight may be picked up without blocking
				for {
					c0 := vrt.RecvCase((<-chan stanza.IQ)(ch))
					if vrt.Select(true, c0) != 0 {
						break
					}
					if !c0.Ok {
						res.closed = true
						break
					}
					res.got = append(res.got, c0.Val.Id)
				}
				cancel()
				res.done = true
			}
			vrt.Go(fmt.Sprintf("caller%d", i), caller)
		}
		vrt.WaitIdle()
		// a request whose context was cancelled, once everything has settled, is not pending any more:
		// whatever comes for its id later is a packet like any other
		cancelledSettled := map[string]bool{}
		if !p.sameID && !p.seqReuse {
			for i, b := range p.behave {
				id := fmt.Sprintf("req%d", i)
				if b == "cancel" && results[i].done {
					cancelledSettled[id] = true
					end.router.IQResultRouteLock.RLock()
					_, still := end.router.IQResultRoutes[id]
					end.router.IQResultRouteLock.RUnlock()
					if still {
						vrt.Fail("C07|pending-entry-left-after-cancel", "%s: the context of request %s was cancelled and everything settled, yet the request is still registered as pending", p.name(), id)
					}
				}
			}
		}
		if p.reuseCtx == "first-expires" {
			vrt.Sleep(10 * time.Second)
			vrt.WaitIdle()
		}
		if p.respond == "late" || p.reuseCtx == "first-expires" {
			for _, r := range pendingLate {
				end.sc().send(r)
			}
			vrt.WaitIdle()
		}
		vrt.Quiet(true)              // the tail (timeouts, probe) is not where the races are
		vrt.Sleep(200 * time.Second) // every context has ended by now
		vrt.WaitIdle()
		// probe: is packet processing still alive?
		before := len(*end.routed)
		end.sc().send("<message from='x@example.org' id='probe'><body>p</body></message>")
		vrt.WaitIdle()
		probeOK := false
		for _, r := range (*end.routed)[before:] {
			if r == "message:probe" {
				probeOK = true
			}
		}
		who := "client"
		if p.comp {
			who = "component"
		}
		desc := p.name()
		// a request made now must still get through and be answered
		finalGot := ""
		vrt.Go("final-caller", func() {
			ctx, cancel := vrt.WithTimeout(vrt.Background(), 60*time.Second)
			defer cancel()
			q := &stanza.IQ{Attrs: stanza.Attrs{Type: stanza.IQTypeGet, Id: "final", To: "example.org"}, Payload: &stanza.DiscoInfo{}}
			ch, err := end.sender.SendIQ(ctx, q)
			if err != nil {
				finalGot = "error: " + err.Error()
				return
			}
			c0 := vrt.RecvCase((<-chan stanza.IQ)(ch))
			c1 := vrt.RecvCase(ctx.Done())
			if vrt.Select(false, c0, c1) == 0 && c0.Ok {
				finalGot = c0.Val.Id
			} else {
				finalGot = "nothing"
			}
		})
		vrt.Sleep(100 * time.Second)
		vrt.WaitIdle()
		if finalGot != "final" {
			cls := "respond=" + p.respond
			if p.handlerAsks {
				cls += "|handler-asks"
			}
			vrt.Fail("C07|later-request-blocked|"+who+"|"+cls, "%s: a SendIQ made after everything settled got %q (alive threads: %v)", desc, finalGot, vrt.Alive())
		}
		if p.seqReuse {
			r0 := results[0]
			if r0.first != "req0" || len(r0.got) != 1 || r0.got[0] != "req0" {
				vrt.Fail("C07|reused-id-second-request-lost|"+who, "%s: two requests in a row with id req0 under one context: first answer %q, second %v; ordinary routes got %v", desc, r0.first, r0.got, *end.routed)
			}
		}
		if !probeOK {
			vrt.Fail("C07|processing-blocked|"+who+"|respond="+p.respond+"|behave="+strings.Join(p.behave, "+"), "%s: a stanza sent afterwards was not routed; alive threads: %v", desc, vrt.Alive())
		}
		// deliveries
		nResp := map[string]int{}
		switch p.respond {
		case "once", "late", "foreign-then-once":
			for i := 0; i < p.reqs; i++ {
				id := fmt.Sprintf("req%d", i)
				if p.sameID {
					id = "req0"
				}
				nResp[id]++
			}
		case "twice":
			for i := 0; i < p.reqs; i++ {
				id := fmt.Sprintf("req%d", i)
				if p.sameID {
					id = "req0"
				}
				nResp[id] += 2
			}
		}
		delivered := map[string]int{}
		for i, res := range results {
			id := fmt.Sprintf("req%d", i)
			if p.sameID {
				id = "req0"
			}
			if res.err != nil {
				vrt.Fail("C07|sendiq-error", "%s: caller %d: %v", desc, i, res.err)
				continue
			}
			for _, g := range res.got {
				delivered[g]++
				if g != id {
					vrt.Fail("C07|foreign-response-delivered", "%s: caller %d (id %s) received a response with id %s", desc, i, id, g)
				}
			}
			if len(res.got) > 1 {
				vrt.Fail("C07|delivered-more-than-once|respond="+p.respond, "%s: caller %d received %v", desc, i, res.got)
			}
			if p.behave[i] == "recv" && !p.sameID && nResp[id] > 0 && len(res.got) != 1 {
				when := "respond=" + p.respond
				vrt.Fail("C07|response-not-delivered|"+who+"|"+when, "%s: caller %d kept receiving until its context ended and got %v; routed to ordinary routes: %v", desc, i, res.got, *end.routed)
			}
			if p.behave[i] == "recv" && len(res.got) == 1 && !res.closed {
				vrt.Fail("C07|channel-not-closed-after-delivery", "%s: caller %d got its response but the channel was never closed", desc, i)
			}
		}
		// ordinary routes: a response may reach them only if it was not delivered to a caller and
		// no matching request was pending (duplicates, foreign ids)
		ordinary := map[string]int{}
		for _, r := range *end.routed {
			if strings.HasPrefix(r, "iq:") {
				parts := strings.Split(r, ":")
				ordinary[parts[1]]++
			}
		}
		if p.respond == "late" {
			for id := range cancelledSettled {
				if ordinary[id] != 1 {
					vrt.Fail("C07|late-response-after-cancel-not-routed", "%s: the response for %s arrived after its request had been cancelled and everything had settled; it reached the ordinary routes %d times (callers got %v)", desc, id, ordinary[id], delivered)
				}
			}
		}
		for id, n := range nResp {
			if delivered[id]+ordinary[id] > n {
				vrt.Fail("C07|response-duplicated", "%s: %d responses for %s, %d delivered to callers and %d to ordinary routes", desc, n, id, delivered[id], ordinary[id])
			}
			if !p.sameID && p.respond != "late" {
				// the request was on the wire before the response was produced: the first response belongs to the caller
				for i := range results {
					rid := fmt.Sprintf("req%d", i)
					if rid == id && p.behave[i] == "recv" && ordinary[id] == n {
						vrt.Fail("C07|response-to-ordinary-route|"+who, "%s: every response for %s went to the ordinary routes although its request was pending", desc, id)
					}
				}
			}
		}
		// a copy of an answer that was already delivered is a packet like any other: it reaches the ordinary routes
		allRecv := !p.sameID && !p.seqReuse && p.respond == "twice"
		for _, b := range p.behave {
			allRecv = allRecv && b == "recv"
		}
		if allRecv {
			for id, n := range nResp {
				if delivered[id]+ordinary[id] != n {
					vrt.Fail("C07|duplicate-response-not-routed|"+who, "%s: %d responses for %s were received: %d delivered to the caller, %d to the ordinary routes - the other one went nowhere", desc, n, id, delivered[id], ordinary[id])
				}
			}
		}
		if n := len(end.router.IQResultRoutes); n != 0 {
			vrt.Fail("C07|pending-entry-left", "%s: %d pending entries remain after every context ended", desc, n)
		}
		vrt.Log("results %+v ordinary %v", delivered, ordinary)
	}
}

func c07verdict(e *vrt.Exec) {
	if e.Panic != nil {
		cls := "other"
		switch {
		case strings.Contains(e.Panic.Value, "closed channel"):
			cls = "closed-channel"
		case strings.Contains(e.Panic.Value, "nil"):
			cls = "nil"
		}
		vrt.Fail("C07|panic|"+cls, "panic in T%d (%s): %s <- %s", e.Panic.Thread, e.Panic.Site, e.Panic.Value, trimStack(e.Panic.Stack))
	} else if e.Deadlock || e.HorizonHit {
		vrt.Fail("C07|hang", "harness thread blocked (deadlock=%v horizon=%v): %s", e.Deadlock, e.HorizonHit, e.BlockedSummary())
	}
}

// c07pendingAcrossReconnect: a request is pending when the connection is lost; the client connects again (the
// session is resumed) and the server answers the request then. The request is still pending - its context is
// alive - so the answer belongs to its caller.
func c07pendingAcrossReconnect(viaResume bool) func() {
	return func() {
		vrt.Quiet(true)
		s := newSess(sessOpts{sm: true, smResume: true, keepalive: 3600})
		if s.cl == nil {
			return
		}
		if err := s.cl.Connect(); err != nil {
			vrt.Fail("C07|harness|connect", "%v", err)
			return
		}
		vrt.WaitIdle()
		vrt.Quiet(false)
		var got []string
		closed, done := false, false
		vrt.Go("caller", func() {
			ctx, cancel := vrt.WithTimeout(vrt.Background(), 60*time.Second)
			defer cancel()
			iq, _ := stanza.NewIQ(stanza.Attrs{Type: stanza.IQTypeGet, Id: "pend1", To: "example.org"})
			iq.Payload = &stanza.DiscoInfo{}
			ch, err := s.cl.SendIQ(ctx, iq)
			if err != nil {
				vrt.Fail("C07|sendiq-error", "%v", err)
				return
			}
			for {
				c0 := vrt.RecvCase((<-chan stanza.IQ)(ch))
				c1 := vrt.RecvCase(ctx.Done())
				if vrt.Select(false, c0, c1) != 0 {
					break
				}
				if !c0.Ok {
					closed = true
					break
				}
				got = append(got, c0.Val.Id)
			}
			done = true
		})
		vrt.WaitIdle()
		s.conn(0).close()
		vrt.WaitIdle()
		var err error
		if viaResume {
			err = s.cl.Resume()
		} else {
			err = s.cl.Connect()
		}
		if err != nil {
			vrt.Fail("C07|harness|reconnect", "%v", err)
			return
		}
		vrt.WaitIdle()
		if c1 := s.conn(1); c1 != nil {
			c1.send("<iq type='result' id='pend1' from='example.org'/>")
		}
		vrt.WaitIdle()
		vrt.Quiet(true)
		vrt.Sleep(100 * time.Second)
		vrt.WaitIdle()
		desc := fmt.Sprintf("request pending, connection lost, client connects again (Resume=%v), the server answers on the new connection", viaResume)
		if !done {
			vrt.Fail("C07|hang", "%s: the caller never finished", desc)
		}
		if len(got) != 1 || got[0] != "pend1" || !closed {
			vrt.Fail("C07|response-not-delivered|client|after-reconnect", "%s: the caller got %v (channel closed after delivery: %v); ordinary routes got %v", desc, got, closed, s.routed)
		}
		for _, r := range s.routed {
			if strings.HasPrefix(r, "iq:pend1") {
				vrt.Fail("C07|response-to-ordinary-route|client|after-reconnect", "%s: the response went to the ordinary routes: %v", desc, s.routed)
			}
		}
	}
}

// c07sendFails: the request cannot be written (the connection is broken for writing). SendIQ reports the error,
// nothing stays registered for the request, and nothing it touched stays locked: a later request on a new
// connection is answered, and inbound IQs are still routed.
func c07sendFails(comp bool, late bool) func() {
	return func() {
		vrt.Quiet(true)
		var end *c07end
		var s *sess
		served := func(sc *srvConn) {
			for {
				u := sc.read()
				if u.kind == "eof" || u.kind == "close" || vrt.Killed() {
					return
				}
				if u.kind == "element" && u.name == "iq" && attr(u.raw, "type") == "get" {
					sc.send(fmt.Sprintf("<iq type='result' id='%s' from='example.org'/>", attr(u.raw, "id")))
				}
			}
		}
		if comp {
			var err error
			end, err = c07component(served)
			if err != nil {
				vrt.Fail("C07|harness|component", "%v", err)
				return
			}
		} else {
			s = newSess(sessOpts{keepalive: 3600, served: func(sc *srvConn, r *negRec) { served(sc) }})
			if s.cl == nil {
				return
			}
			end = &c07end{sender: s.cl, router: s.router, routed: &s.routed, sc: func() *srvConn { return s.conn(0) }, connect: s.cl.Connect}
		}
		if err := end.connect(); err != nil {
			vrt.Fail("C07|harness|connect", "%v", err)
			return
		}
		vrt.WaitIdle()
		vrt.Quiet(false)
		who := "client"
		if comp {
			who = "component"
		}
		end.sc().raw.Peer().WriteFault = func(c *vnet.Conn, p []byte) (int, error) { return 0, errors.New("write: broken pipe") }
		if late {
			// the bytes go out, and the write is reported as failed all the same (an error of a layer above the
			// socket: a traffic log that cannot be written, a deadline that passes as the write completes): the
			// server answers, and that answer races with the failure path of SendIQ
			end.sc().raw.Peer().WriteFault = func(c *vnet.Conn, p []byte) (int, error) { return len(p), errors.New("write: reported as failed") }
		}
		ctx, cancel := vrt.WithTimeout(vrt.Background(), 60*time.Second)
		iq, _ := stanza.NewIQ(stanza.Attrs{Type: stanza.IQTypeGet, Id: "lost1", To: "example.org"})
		iq.Payload = &stanza.DiscoInfo{}
		_, err := end.sender.SendIQ(ctx, iq)
		if err == nil {
			vrt.Fail("C07|send-failure-not-reported|"+who, "SendIQ returned nil although the request could not be written")
		}
		vrt.WaitIdle()
		end.router.IQResultRouteLock.RLock()
		_, still := end.router.IQResultRoutes["lost1"]
		end.router.IQResultRouteLock.RUnlock()
		if still {
			vrt.Fail("C07|pending-entry-left|after-failed-send|"+who, "the request could not be written and SendIQ said so, yet it is still registered as pending")
		}
		if late {
			vrt.Sleep(time.Second)
			vrt.WaitIdle()
		}
		cancel()
		vrt.WaitIdle()
		// the connection works again: a further request is answered
		end.sc().raw.Peer().WriteFault = nil
		got := ""
		vrt.Go("later-caller", func() {
			ctx, cancel := vrt.WithTimeout(vrt.Background(), 60*time.Second)
			defer cancel()
			q, _ := stanza.NewIQ(stanza.Attrs{Type: stanza.IQTypeGet, Id: "later1", To: "example.org"})
			q.Payload = &stanza.DiscoInfo{}
			ch, err := end.sender.SendIQ(ctx, q)
			if err != nil {
				got = "error: " + err.Error()
				return
			}
			c0 := vrt.RecvCase((<-chan stanza.IQ)(ch))
			c1 := vrt.RecvCase(ctx.Done())
			if vrt.Select(false, c0, c1) == 0 && c0.Ok {
				got = c0.Val.Id
			} else {
				got = "nothing"
			}
		})
		vrt.WaitIdle()
		vrt.Sleep(100 * time.Second)
		vrt.WaitIdle()
		if got != "later1" {
			vrt.Fail("C07|later-request-blocked|"+who+"|after-failed-send", "a request made after one that could not be written got %q (alive threads: %v)", got, vrt.Alive())
		}
	}
}

// c07manyHandlers: n stanzas arrive at once and the handler of each asks the server something (SendIQ) and waits
// for the answer; the server answers once it has read all n requests. However many handlers wait at the same time,
// packet processing goes on: every one of them gets its answer.
func c07manyHandlers(n int) func() {
	return func() {
		vrt.Quiet(true)
		answered := 0
		s := newSess(sessOpts{keepalive: 3600, noCatchAll: true, served: func(sc *srvConn, r *negRec) {
			var sb strings.Builder
			for i := 0; i < n; i++ {
				fmt.Fprintf(&sb, "<message from='peer@example.org' id='in%d'><body>x</body></message>", i)
			}
			seenPresence := false
			var ids []string
			for {
				u := sc.read()
				if u.kind == "eof" || u.kind == "close" || vrt.Killed() {
					return
				}
				if u.kind == "element" && u.name == "presence" && !seenPresence {
					seenPresence = true
					sc.send(sb.String())
				}
				if u.kind == "element" && u.name == "iq" && attr(u.raw, "type") == "get" {
					ids = append(ids, attr(u.raw, "id"))
					if len(ids) == n {
						var ab strings.Builder
						for _, id := range ids {
							fmt.Fprintf(&ab, "<iq type='result' id='%s' from='example.org'/>", id)
						}
						sc.send(ab.String())
					}
				}
			}
		}})
		if s.cl == nil {
			return
		}
		s.router.NewRoute().Packet("message").HandlerFunc(func(sd Sender, p stanza.Packet) {
			m, ok := p.(stanza.Message)
			if !ok {
				return
			}
			ctx, cancel := vrt.WithTimeout(vrt.Background(), 60*time.Second)
			defer cancel()
			iq, _ := stanza.NewIQ(stanza.Attrs{Type: stanza.IQTypeGet, Id: "ask-" + m.Id, To: "example.org"})
			iq.Payload = &stanza.DiscoInfo{}
			ch, err := sd.SendIQ(ctx, iq)
			if err != nil {
				return
			}
			c0 := vrt.RecvCase((<-chan stanza.IQ)(ch))
			c1 := vrt.RecvCase(ctx.Done())
			if vrt.Select(false, c0, c1) == 0 && c0.Ok && c0.Val.Id == "ask-"+m.Id {
				answered++
			}
		})
		if err := s.cl.Connect(); err != nil {
			vrt.Fail("C07|harness|connect", "%v", err)
			return
		}
		vrt.WaitIdle()
		vrt.Sleep(200 * time.Second)
		vrt.WaitIdle()
		if answered != n {
			vrt.Fail("C07|processing-blocked|client|many-handlers-waiting", "%d stanzas arrived at once, each handler sent a request and waited for its answer; the server answered all %d once it had read them all, but only %d handlers got their answer", n, n, answered)
		}
	}
}

func TestVerifC07(t *testing.T) {
	bound := 2
	if hx.Thorough() {
		bound = 3
	}
	var plans []c07plan
	for _, comp := range []bool{false, true} {
		for _, respond := range []string{"once", "twice", "foreign-then-once", "late", "none"} {
			for _, b := range []string{"recv", "cancel", "abandon"} {
				plans = append(plans, c07plan{comp: comp, reqs: 1, behave: []string{b}, respond: respond})
			}
			for _, same := range []bool{false, true} {
				for _, b := range [][]string{{"recv", "recv"}, {"recv", "cancel"}, {"abandon", "recv"}} {
					if !hx.Thorough() && (respond == "none" || respond == "foreign-then-once") {
						continue
					}
					plans = append(plans, c07plan{comp: comp, reqs: 2, sameID: same, behave: b, respond: respond})
				}
			}
		}
	}
	for _, comp := range []bool{false, true} {
		plans = append(plans, c07plan{comp: comp, reqs: 1, behave: []string{"recv"}, respond: "once", seqReuse: true})
		plans = append(plans, c07plan{comp: comp, reqs: 1, behave: []string{"recv"}, respond: "once", seqReuse: true, reuseCtx: "first-cancelled"})
		plans = append(plans, c07plan{comp: comp, reqs: 1, behave: []string{"recv"}, respond: "once", seqReuse: true, reuseCtx: "first-expires"})
		plans = append(plans, c07plan{comp: comp, reqs: 1, behave: []string{"recv"}, respond: "once", seqReuse: true, reuseCtx: "first-given-up"})
		for _, respond := range []string{"twice", "foreign-then-once"} {
			plans = append(plans, c07plan{comp: comp, reqs: 1, behave: []string{"recv"}, respond: respond, handlerAsks: true})
		}
	}
	// the same plans with the other kinds of context and of answer (single requests, and two concurrent ones with
	// distinct ids)
	for _, p := range append([]c07plan{}, plans...) {
		if p.seqReuse || p.handlerAsks || p.sameID || p.respond == "none" {
			continue
		}
		if p.behave[0] != "abandon" && (len(p.behave) == 1 || p.behave[1] != "abandon") {
			q := p
			q.ctxKind = "cancel-only"
			plans = append(plans, q)
		}
		for _, a := range []string{"error-full", "error-bare", "error-echo", "result-payload", "result-no-from", "result-from-other-form"} {
			if p.reqs == 2 && a != "error-bare" && a != "result-no-from" { // (both tiers: the two-caller plans are the expensive ones)
				continue
			}
			q := p
			q.answer = a
			plans = append(plans, q)
		}
	}
	var scs []hx.Scenario
	for _, p := range plans {
		b := bound
		scs = append(scs, hx.Scenario{Name: p.name(), Opt: vrt.Options{Bound: b, Horizon: 20000}, Body: c07body(p), Verdict: c07verdict})
	}
	for _, viaResume := range []bool{false, true} {
		scs = append(scs, hx.Scenario{Name: fmt.Sprintf("client/pending-across-reconnect/resume=%v", viaResume), Opt: vrt.Options{Bound: 1, Horizon: 50000}, Body: c07pendingAcrossReconnect(viaResume), Verdict: c07verdict})
	}
	for _, comp := range []bool{false, true} {
		scs = append(scs, hx.Scenario{Name: fmt.Sprintf("send-fails/comp=%v", comp), Opt: vrt.Options{Bound: 1, Horizon: 50000}, Body: c07sendFails(comp, false), Verdict: c07verdict})
		scs = append(scs, hx.Scenario{Name: fmt.Sprintf("send-fails-after-the-bytes-went-out/comp=%v", comp), Opt: vrt.Options{Bound: 2, Horizon: 50000}, Body: c07sendFails(comp, true), Verdict: c07verdict})
	}
	for _, n := range []int{3, 40} {
		scs = append(scs, hx.Scenario{Name: fmt.Sprintf("client/many-handlers-waiting/n=%d", n), Opt: vrt.Options{Bound: 0, Horizon: 400000}, Body: c07manyHandlers(n), Verdict: c07verdict})
	}
	if hx.Main("C07", scs) == 2 {
		t.Fatal("internal error")
	}
}
