//go:build verif

package xmpp

import (
	"context"
	"encoding/xml"
	"errors"
	"fmt"
	"os"
	"strings"
	"testing"
	"time"

	"gosrc.io/xmpp/stanza"
	"verif/hx"
	"verif/vnet"
	"verif/vrt"
)

// C08: each send puts exactly the serialized stanza on the wire once, even concurrently.

type c08cfg struct {
	comp   bool
	sm     bool
	logger bool
	faults bool
	progs  [][]string // per sender thread: ops
}

func (c c08cfg) name() string {
	var ps []string
	for _, p := range c.progs {
		ps = append(ps, strings.Join(p, "."))
	}
	return fmt.Sprintf("comp=%v/sm=%v/logger=%v/faults=%v/progs=%s", c.comp, c.sm, c.logger, c.faults, strings.Join(ps, "_"))
}

type c08sender interface {
	Send(packet stanza.Packet) error
	SendRaw(packet string) error
	SendIQ(ctx context.Context, iq *stanza.IQ) (chan stanza.IQ, error)
}

type c08call struct {
	thread, idx int
	op          string
	wire        string // expected bytes
	err         error
	returned    bool
	bad         bool // cannot be serialized
}

func c08body(cfg c08cfg) func() {
	return func() {
		vrt.Quiet(true)
		var snd c08sender
		var sc func() *srvConn
		var logf *os.File
		if cfg.logger {
			f, err := os.CreateTemp("", "verif-c08-*.log")
			if err != nil {
				vrt.Fail("C08|harness|tempfile", "%v", err)
				return
			}
			logf = f
			defer func() { f.Close(); os.Remove(f.Name()) }()
		}
		if cfg.comp {
			w := vnet.NewWorld()
			var conn *srvConn
			w.Listen("example.org:5347", &vnet.Listener{Accept: func(k int, c *vnet.Conn) (func(), error) {
				s := newSrvConn(k, c)
				conn = s
				return func() {
					u := s.read()
					if u.kind == "prolog" {
						s.read()
					}
					s.send("<?xml version='1.0'?><stream:stream xmlns='jabber:component:accept' xmlns:stream='http://etherx.jabber.org/streams' from='comp.example.org' id='sid1'>")
					s.read()
					s.send("<handshake/>")
					vrt.Block("srv parked", func() bool { return false })
				}, nil
			}})
			opts := ComponentOptions{TransportConfiguration: TransportConfiguration{Address: "example.org:5347", Domain: "comp.example.org"}, Domain: "comp.example.org", Secret: "s"}
			comp, err := NewComponent(opts, NewRouter(), func(error) {})
			if err != nil {
				vrt.Fail("C08|harness|component", "%v", err)
				return
			}
			if err := comp.Connect(); err != nil {
				vrt.Fail("C08|harness|connect", "%v", err)
				return
			}
			if cfg.logger {
				comp.transport.LogTraffic(logf) // no public knob on a component; the transport is the seam
				// the logger is installed at connect time: reconnect so that it is in the write path
				vrt.Fail("C08|harness|component-logger", "not supported")
				return
			}
			snd, sc = comp, func() *srvConn { return conn }
		} else {
			s := newSess(sessOpts{sm: cfg.sm, smResume: cfg.sm, keepalive: 3600})
			if s.cl == nil {
				return
			}
			if cfg.logger {
				s.cl.transport.LogTraffic(logf)
			}
			if err := s.cl.Connect(); err != nil {
				vrt.Fail("C08|harness|connect", "%v", err)
				return
			}
			snd, sc = s.cl, func() *srvConn { return s.conn(0) }
		}
		vrt.WaitIdle()
		conn := sc()
		conn.drainNew()
		conn.pending = nil
		t0 := vrt.VNow()
		skip := 0
		for _, rec := range *conn.raw.Peer().Log {
			if rec.ToSrv && !rec.Failed && rec.At >= t0 {
				skip += len(rec.Data) // written during set-up at the same virtual instant
			}
		}
		var calls []*c08call
		if cfg.faults {
			conn.raw.Peer().WriteFault = func(c *vnet.Conn, p []byte) (int, error) {
				alts := 2
				if cfg.logger {
					alts = 3
				}
				switch vrt.Choose("write-fault", alts) {
				case 1:
					hx.Symbol("fault=error")
					return 0, errors.New("write: connection reset by peer")
				case 2:
					hx.Symbol("fault=short")
					return len(p) / 2, nil
				}
				return -1, nil
			}
		}
		vrt.Quiet(false)
		done := 0
		for ti, prog := range cfg.progs {
			ti, prog := ti, prog
			var mine []*c08call
			for oi, op := range prog {
				c := &c08call{thread: ti, idx: oi, op: op}
				id := fmt.Sprintf("t%do%d", ti, oi)
				switch op {
				case "msg":
					b, _ := xml.Marshal(stanza.Message{Attrs: stanza.Attrs{To: "peer@example.org", Id: id, Type: "chat"}, Body: "body <" + id + "> & more"})
					c.wire = string(b)
				case "bigmsg":
					b, _ := xml.Marshal(stanza.Message{Attrs: stanza.Attrs{To: "peer@example.org", Id: id}, Body: c08big(id)})
					c.wire = string(b)
				case "pres":
					b, _ := xml.Marshal(stanza.Presence{Attrs: stanza.Attrs{Id: id}, Status: "st " + id})
					c.wire = string(b)
				case "raw":
					c.wire = fmt.Sprintf("<message id='%s' to='x@example.org'><body>raw %s</body></message>", id, id)
				case "iq":
					iq := &stanza.IQ{Attrs: stanza.Attrs{Type: "get", Id: id, To: "example.org"}, Payload: &stanza.DiscoInfo{}}
					b, _ := xml.Marshal(iq)
					c.wire = string(b)
				case "badmsg", "badext", "badiq":
					var err error
					var b []byte
					switch op {
					case "badmsg":
						b, err = xml.Marshal(c08badMsg(id))
					case "badext":
						b, err = xml.Marshal(c08badExt(id))
					default:
						b, err = xml.Marshal(c08badIQ(id))
					}
					if err == nil {
						c.wire = string(b) // this tree serializes it: an ordinary stanza then
					} else {
						c.bad = true
					}
				}
				mine = append(mine, c)
				calls = append(calls, c)
			}
			vrt.Go(fmt.Sprintf("sender%d", ti), func() {
				for _, c := range mine {
					id := fmt.Sprintf("t%do%d", c.thread, c.idx)
					switch c.op {
					case "msg":
						c.err = snd.Send(stanza.Message{Attrs: stanza.Attrs{To: "peer@example.org", Id: id, Type: "chat"}, Body: "body <" + id + "> & more"})
					case "bigmsg":
						c.err = snd.Send(stanza.Message{Attrs: stanza.Attrs{To: "peer@example.org", Id: id}, Body: c08big(id)})
					case "pres":
						c.err = snd.Send(stanza.Presence{Attrs: stanza.Attrs{Id: id}, Status: "st " + id})
					case "raw":
						c.err = snd.SendRaw(c.wire)
					case "badmsg":
						c.err = snd.Send(c08badMsg(id))
					case "badext":
						c.err = snd.Send(c08badExt(id))
					case "badiq":
						c.err = snd.Send(c08badIQ(id))
					case "iq":
						ctx, cancel := vrt.WithTimeout(vrt.Background(), 10*time.Second)
						_, c.err = snd.SendIQ(ctx, &stanza.IQ{Attrs: stanza.Attrs{Type: "get", Id: id, To: "example.org"}, Payload: &stanza.DiscoInfo{}})
						cancel()
					}
					c.returned = true
				}
				done++
			})
		}
		vrt.WaitIdle()
		vrt.Quiet(true)
		if done != len(cfg.progs) {
			vrt.Fail("C08|send-did-not-return", "%s: %d of %d sender threads finished; alive %v", cfg.name(), done, len(cfg.progs), vrt.Alive())
		}
		// --- what is on the wire? The byte stream the server received since the session was up.
		var sb strings.Builder
		for _, rec := range *conn.raw.Peer().Log {
			if rec.ToSrv && !rec.Failed && rec.At >= t0 {
				sb.Write(rec.Data)
			}
		}
		stream := sb.String()[skip:]
		ctx := fmt.Sprintf("%s: byte stream %q", cfg.name(), stream)
		// Decompose the stream into whole serializations of calls (each at most once) and, for calls
		// that reported an error, the visible half of a short write. Backtracking over the few calls.
		order := []*c08call{}
		var best []*c08call
		var dec func(p int, used map[*c08call]bool, frag map[*c08call]bool) bool
		dec = func(p int, used map[*c08call]bool, frag map[*c08call]bool) bool {
			if len(order) > len(best) {
				best = append([]*c08call{}, order...)
			}
			if p == len(stream) {
				return true
			}
			for _, c := range calls {
				if c.bad {
					continue // nothing of it may be on the wire
				}
				if !used[c] && strings.HasPrefix(stream[p:], c.wire) {
					used[c] = true
					order = append(order, c)
					if dec(p+len(c.wire), used, frag) {
						return true
					}
					order = order[:len(order)-1]
					used[c] = false
				}
				if c.err != nil && !frag[c] && !used[c] {
					half := c.wire[:len(c.wire)/2]
					if strings.HasPrefix(stream[p:], half) {
						frag[c] = true
						if dec(p+len(half), used, frag) {
							return true
						}
						frag[c] = false
					}
				}
			}
			return false
		}
		used := map[*c08call]bool{}
		if !dec(0, used, map[*c08call]bool{}) {
			vrt.Fail("C08|stream-not-a-sequence-of-whole-stanzas", "%s: cannot be cut into the serializations of the calls made (longest match %d calls): interleaved, torn, duplicated or foreign bytes", ctx, len(best))
		} else {
			pos := map[*c08call]int{}
			for i, c := range order {
				pos[c] = i
			}
			for _, c := range calls {
				if c.bad && c.returned && c.err == nil {
					vrt.Fail("C08|unserializable-reported-sent|op="+c.op, "%s: thread %d call %d (%s) cannot be serialized and Send returned nil", ctx, c.thread, c.idx, c.op)
				}
				if c.err == nil && c.returned {
					if _, ok := pos[c]; !ok {
						vrt.Fail("C08|successful-send-missing|op="+c.op, "%s: thread %d call %d (%s) returned nil but %q is not on the wire", ctx, c.thread, c.idx, c.op, c.wire)
					}
				}
			}
			for ti := range cfg.progs {
				last := -1
				for _, c := range calls {
					if c.thread != ti {
						continue
					}
					if p, ok := pos[c]; ok {
						if p < last {
							vrt.Fail("C08|program-order", "%s: thread %d's sends appear out of order", ctx, ti)
						}
						last = p
					}
				}
			}
		}
		// injected faults must have been reported
		nFailed := 0
		for _, rec := range *conn.raw.Peer().Log {
			if rec.ToSrv && rec.Failed {
				nFailed++
			}
		}
		nErr := 0
		for _, c := range calls {
			if c.err != nil {
				nErr++
			}
		}
		if nErr < nFailed {
			vrt.Fail("C08|failed-write-not-reported", "%s: %d writes failed but only %d calls returned an error", ctx, nFailed, nErr)
		}
		vrt.Log("stream=%d bytes errs=%d failed=%d", len(stream), nErr, nFailed)
	}
}

// c08big is a body larger than any internal buffer an encoder might use (4 KiB, 32 KiB).
func c08big(id string) string {
	return id + ":" + strings.Repeat("0123456789abcdef", 2600) + ":" + id
}

// stanzas that cannot be serialized (the encoder refuses them part-way through): the call has to fail, and to leave
// nothing behind - neither on the wire nor in whatever the sender keeps between calls
func c08badMsg(id string) stanza.Message {
	return stanza.Message{Attrs: stanza.Attrs{To: "peer@example.org", Id: id, Type: "error"}, Body: "refused " + id,
		Error: stanza.Err{Type: stanza.ErrorTypeCancel, Reason: "item not found"}}
}

func c08badExt(id string) stanza.Message {
	return stanza.Message{Attrs: stanza.Attrs{To: "peer@example.org", Id: id}, Body: "refused " + id,
		Extensions: []stanza.MsgExtension{&stanza.Node{XMLName: xml.Name{Space: "urn:example:ext", Local: "ext"}, Nodes: []stanza.Node{{Content: "no name"}}}}}
}

func c08badIQ(id string) *stanza.IQ {
	return &stanza.IQ{Attrs: stanza.Attrs{Type: "error", Id: id, To: "example.org"}, Error: &stanza.Err{Type: stanza.ErrorTypeCancel, Reason: "item not found"}}
}

func c08verdict(e *vrt.Exec) {
	if e.Panic != nil {
		vrt.Fail("C08|panic", "panic in T%d (%s): %s <- %s", e.Panic.Thread, e.Panic.Site, e.Panic.Value, trimStack(e.Panic.Stack))
	} else if e.Deadlock || e.HorizonHit {
		vrt.Fail("C08|hang", "deadlock=%v horizon=%v: %s", e.Deadlock, e.HorizonHit, e.BlockedSummary())
	}
}

func TestVerifC08(t *testing.T) {
	bound := 2
	progsA := [][]string{{"msg"}, {"raw"}, {"iq"}, {"msg", "raw"}, {"pres", "iq"}}
	progsB := [][]string{{"msg"}, {"raw"}, {"iq"}, {"raw", "msg"}}
	if hx.Thorough() {
		bound = 3
	}
	var scs []hx.Scenario
	add := func(cfg c08cfg, b int) {
		scs = append(scs, hx.Scenario{Name: cfg.name(), Opt: vrt.Options{Bound: b, Horizon: 50000, TouchOn: []string{"Uslice"}}, Body: c08body(cfg), Verdict: c08verdict})
	}
	for _, comp := range []bool{false, true} {
		for _, sm := range []bool{false, true} {
			for _, logger := range []bool{false, true} {
				if comp && (sm || logger) {
					continue
				}
				for _, a := range progsA {
					for _, b := range progsB {
						add(c08cfg{comp: comp, sm: sm, logger: logger, progs: [][]string{a, b}}, bound)
					}
				}
				// stanzas larger than internal buffers, sent concurrently
				add(c08cfg{comp: comp, sm: sm, logger: logger, progs: [][]string{{"bigmsg"}, {"bigmsg"}}}, bound)
				add(c08cfg{comp: comp, sm: sm, logger: logger, progs: [][]string{{"bigmsg"}, {"raw", "iq"}}}, bound)
				// stanzas that the encoder refuses, among others (what a refused stanza leaves behind shows with the next)
				add(c08cfg{comp: comp, sm: sm, logger: logger, progs: [][]string{{"badmsg", "msg", "badext", "pres"}, {"raw"}}}, bound)
				add(c08cfg{comp: comp, sm: sm, logger: logger, progs: [][]string{{"badiq", "iq"}, {"badext", "msg"}}}, bound)
				// write faults: one injected fault (deviation) among the calls
				for _, a := range progsA[:4] {
					add(c08cfg{comp: comp, sm: sm, logger: logger, faults: true, progs: [][]string{a, {"msg"}}}, bound)
				}
				if hx.Thorough() {
					add(c08cfg{comp: comp, sm: sm, logger: logger, progs: [][]string{{"msg", "raw"}, {"iq"}, {"pres"}}}, bound)
				}
			}
		}
	}
	scs = append(scs, c08wsScenarios()...)
	if hx.Main("C08", scs) == 2 {
		t.Fatal("internal error")
	}
}
