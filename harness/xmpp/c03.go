//go:build verif

package xmpp

import (
	"crypto/tls"
	"errors"
	"fmt"
	"os"
	"strings"
	"testing"

	"verif/hx"
	"verif/vnet"
	"verif/vrt"
)

// C03: negotiation succeeds iff the server completed every mandatory step, in order.

type c03cfg struct {
	insecure  bool
	resource  bool
	sm        bool // client requests stream management
	resumable bool // a first stream-managed connection was established and dropped before
	starttls  string
	session   string
	smAdv     bool
	// afterFailed: the same Client made an attempt before, which the server failed at one step (a free choice
	// among c03failures); the attempt under test must be judged on its own answers only
	afterFailed bool
	// writeFault: every answer of the server is the positive one, but the connection breaks for writing at the
	// client's k-th write (k a free choice): whatever the client was about to send, Connect must report an error
	writeFault bool
	// logger: the traffic log is on (reads and writes go through the stream logger, also across STARTTLS)
	logger bool
}

// (step, answer) pairs that fail the earlier attempt of an afterFailed scenario
var c03failures = [][2]string{{"auth", "failure"}, {"header3-features", "message-instead"}, {"bind", "error-echo"}, {"bind", "close"},
	{"session", "error"}, {"enable", "failed"}, {"starttls", "failure"}, {"header1", "close"}, {"none", "none"}}

func (c c03cfg) name() string {
	n := fmt.Sprintf("insecure=%v/resource=%v/sm=%v/resumable=%v/starttls=%s/session=%s/smadv=%v",
		c.insecure, c.resource, c.sm, c.resumable, c.starttls, c.session, c.smAdv)
	if c.afterFailed {
		n += "/after-failed-attempt"
	}
	if c.writeFault {
		n += "/write-fault"
	}
	if c.logger {
		n += "/logger"
	}
	return n
}

type c03out struct {
	cfg        c03cfg
	rec        *negRec
	connectErr error
	returned   bool
	events     []ConnState
	smWanted   bool
	firstErr   error
	recs       *[]*negRec
	last       int
}

// c03logger, when set, is the traffic log of the clients made by newTestClient
var c03logger *os.File

func newTestClient(insecure, resource, sm, smResume bool, onErr func(error), onEvent func(Event)) (*Client, *Config, error) {
	jid := "user@example.org"
	if resource {
		jid += "/res1"
	}
	cfg := &Config{
		TransportConfiguration: TransportConfiguration{
			Address:   "example.org:5222",
			Domain:    "example.org",
			TLSConfig: &tls.Config{RootCAs: getFixtures().caPool},
		},
		Jid:                    jid,
		Credential:             Password("secret"),
		Insecure:               insecure,
		StreamManagementEnable: sm,
	}
	cfg.streamManagementResume = smResume
	cfg.StreamLogger = c03logger
	cl, err := NewClient(cfg, NewRouter(), onErr)
	if err != nil {
		return nil, nil, err
	}
	cl.SetHandler(func(e Event) error {
		onEvent(e)
		return nil
	})
	return cl, cfg, nil
}

func c03body(sc c03cfg) func() {
	return func() {
		out := &c03out{cfg: sc}
		vrt.X().Data["out"] = out
		w := vnet.NewWorld()
		var recs []*negRec
		drop := false
		last := 0
		if sc.resumable || sc.afterFailed {
			last = 1
		}
		out.recs, out.last = &recs, last
		var failure [2]string
		if sc.afterFailed {
			failure = c03failures[vrt.ChooseFree("earlier-attempt-fails-at", len(c03failures))]
		}
		faultAt := -1
		if sc.writeFault {
			faultAt = vrt.ChooseFree("write-fails-at", 12)
		}
		listen(w, "example.org:5222", func(k int) *negCfg {
			n := &negCfg{domain: "example.org", starttls: sc.starttls, cert: "valid", mechs: []string{"PLAIN"},
				session: sc.session, sm: sc.smAdv, pick: explorePick}
			if sc.writeFault {
				n.pick = defaultPick
			}
			if k < last && sc.afterFailed {
				// earlier attempt: a server that offers everything (mandatory session, stream management) whatever the
				// connection under test will offer - what was advertised then says nothing about now -, one step failed
				// (or none: an earlier complete session, ended by the client)
				n.session, n.sm = "mandatory", true
				n.pick = func(step string, alts ...string) string {
					if step == failure[0] {
						for _, a := range alts {
							if a == failure[1] {
								return a
							}
						}
					}
					return alts[0]
				}
				return n
			}
			if k < last {
				// set-up connection: everything succeeds, stream management with resumption
				n.pick = defaultPick
				n.sm = true
				n.starttls = "offered"
				n.session = "absent"
				n.established = func(s *srvConn, r *negRec) {
					vrt.Block("srv: wait for drop", func() bool { return drop })
					s.close()
				}
			}
			if k > last {
				return nil
			}
			return n
		}, &recs, nil)
		if sc.writeFault {
			l := w.Listeners["example.org:5222"]
			accept := l.Accept
			l.Accept = func(k int, c *vnet.Conn) (func(), error) {
				if k != last {
					return accept(k, c)
				}
				nw := 0
				c.Peer().WriteFault = func(_ *vnet.Conn, p []byte) (int, error) {
					nw++
					if nw > faultAt {
						return 0, errors.New("write: broken pipe")
					}
					return -1, nil
				}
				return accept(k, c)
			}
		}
		sm := sc.sm || sc.resumable
		c03logger = nil
		if sc.logger {
			f, ferr := os.CreateTemp("", "verif-c03-*.log")
			if ferr != nil {
				vrt.Fail("C03|harness|tempfile", "%v", ferr)
				return
			}
			defer func() { f.Close(); os.Remove(f.Name()); c03logger = nil }()
			c03logger = f
		}
		cl, cfg, err := newTestClient(sc.insecure, sc.resource, sm, sc.resumable,
			func(err error) { vrt.Log("errorhandler") },
			func(e Event) {
				out.events = append(out.events, e.State.state)
				vrt.Log("event state=%d", e.State.state)
			})
		if err != nil {
			vrt.Fail("C03|harness|newclient", "%v", err)
			return
		}
		if sc.afterFailed {
			if err := cl.Connect(); err == nil {
				// the failing step was not part of this configuration's negotiation: an earlier session, ended by us
				cl.Disconnect()
			}
			vrt.WaitIdle()
			vrt.Log("earlier attempt (%s=%s) over", failure[0], failure[1])
			out.events = nil
		}
		if sc.resumable {
			if err := cl.Connect(); err != nil {
				out.firstErr = err
				vrt.Log("setup connect failed")
				return
			}
			drop = true
			vrt.WaitIdle()
			out.events = nil
			cfg.StreamManagementEnable = sc.sm || cfg.StreamManagementEnable && sc.resumable
		}
		out.smWanted = cfg.StreamManagementEnable
		err = cl.Connect()
		out.returned = true
		out.connectErr = err
		if len(recs) > last {
			out.rec = recs[last]
		}
		vrt.Log("connect ok=%v", err == nil)
		if out.rec != nil {
			vrt.Log("server steps %v requests %v", out.rec.Steps, out.rec.Requests)
		}
		if err == nil {
			cl.Disconnect()
		}
		vrt.WaitIdle()
	}
}

func c03verdict(e *vrt.Exec) {
	out, _ := e.Data["out"].(*c03out)
	if out == nil {
		return
	}
	sc := out.cfg
	where := func(r *negRec) string {
		if r == nil {
			return "step=dial"
		}
		if r.FailStep != "" {
			return "step=" + r.FailStep + "|answer=" + r.FailAnswer
		}
		return "step=none"
	}
	if out.rec == nil && out.recs != nil && len(*out.recs) > out.last {
		out.rec = (*out.recs)[out.last]
	}
	if e.Panic != nil {
		vrt.Fail("C03|panic|"+where(out.rec), "panic in T%d (%s): %s\n%s", e.Panic.Thread, e.Panic.Site, e.Panic.Value, trimStack(e.Panic.Stack))
		return
	}
	if out.firstErr != nil {
		// the all-success set-up connection failed: only possible if the plain success path is broken
		vrt.Fail("C03|setup-connection-failed", "first (all-success) connection failed: %v", out.firstErr)
		return
	}
	if e.Deadlock || e.HorizonHit || !out.returned {
		vrt.Fail("C03|hang|"+where(out.rec), "Connect did not return (deadlock=%v horizon=%v); blocked: %s", e.Deadlock, e.HorizonHit, e.BlockedSummary())
		return
	}
	r := out.rec
	if r == nil {
		vrt.Fail("C03|harness|no-record", "no server record")
		return
	}
	// reference: every mandatory step completed, in order
	mand := r.FailStep == "" && r.AuthOK && (sc.insecure || r.TLSDone) &&
		(r.Resumed || (r.BindOK && (sc.session != "mandatory" || r.SessionOK) && (!(out.smWanted && sc.smAdv) || r.EnableOK)))
	missing := ""
	switch {
	case r.FailStep != "":
		missing = where(r)
	case !r.AuthOK:
		missing = "step=auth|answer=never-requested"
	case !sc.insecure && !r.TLSDone:
		missing = "step=starttls|answer=never-done"
	case !r.Resumed && !r.BindOK:
		missing = "step=bind|answer=never-requested"
	case !r.Resumed && sc.session == "mandatory" && !r.SessionOK:
		missing = "step=session|answer=never-requested"
	case !r.Resumed && out.smWanted && sc.smAdv && !r.EnableOK:
		missing = "step=enable|answer=never-requested"
	}
	ok := out.connectErr == nil
	if ok && !mand {
		vrt.Fail("C03|success-despite-failure|"+missing, "Connect returned nil although %s (server steps %v)", missing, r.Steps)
	}
	if !ok && !mand && r.FailStep == "" && (sc.insecure || sc.starttls != "absent") && !sc.writeFault {
		// the server answered every request with its success answer and refused nothing, TLS was available if the
		// client wanted it: the client gave up on its own (what it asked for up to then: r.Requests)
		vrt.Fail("C03|gave-up-although-server-completed-every-step|last="+lastStep(r), "Connect returned %v although the server never refused anything (server steps %v, client requests %v)", out.connectErr, r.Steps, r.Requests)
	}
	if !ok && mand && !sc.writeFault { // (with a write fault the initial presence may be what could not be written)
		vrt.Fail("C03|error-despite-success|last="+lastStep(r), "Connect returned %v although every mandatory step succeeded (server steps %v)", out.connectErr, r.Steps)
	}
	est := 0
	for _, s := range out.events {
		if s == StateSessionEstablished {
			est++
		}
	}
	if mand && ok && est != 1 {
		vrt.Fail("C03|established-not-announced", "session established announced %d times on a successful connect (events %v)", est, out.events)
	}
	if !mand && est != 0 {
		vrt.Fail("C03|established-announced-on-failure|"+missing, "session established announced although %s (events %v)", missing, out.events)
	}
	if len(r.Order) > 0 {
		vrt.Fail("C03|order|"+strings.SplitN(r.Order[0], " ", 2)[0], "client requests out of order: %v (requests %v)", r.Order, r.Requests)
	}
	if len(r.After) > 0 {
		vrt.Fail("C03|continued-after-failure|"+where(r), "after the failed step the client still sent %v", r.After)
	}
}

func lastStep(r *negRec) string {
	if len(r.Steps) == 0 {
		return "none"
	}
	return r.Steps[len(r.Steps)-1]
}

func trimStack(s string) string {
	lines := strings.Split(s, "\n")
	var out []string
	for _, l := range lines {
		if strings.Contains(l, "gosrc.io/xmpp") || strings.HasPrefix(l, "panic") {
			out = append(out, strings.TrimSpace(l))
		}
		if len(out) > 12 {
			break
		}
	}
	return strings.Join(out, " <- ")
}

// c03manyConnections: one client connects n times in a row, every connection negotiated completely by a server that
// answers every request correctly (echoing its id). Every one of them has to succeed: whatever the client numbers,
// counts or remembers from one negotiation to the next (request ids, attempts, features) goes through 9, 10, 15, 16, 17
// on the way.
func c03manyConnections(n int, session string, sm bool) func() {
	return func() {
		w := vnet.NewWorld()
		var recs []*negRec
		var conns []*srvConn
		listen(w, "example.org:5222", func(k int) *negCfg {
			return &negCfg{domain: "example.org", starttls: "absent", cert: "valid", mechs: []string{"PLAIN"}, session: session, sm: sm, pick: defaultPick}
		}, &recs, &conns)
		cl, _, err := newTestClient(true, true, sm, false, func(error) {}, func(Event) {})
		if err != nil {
			vrt.Fail("C03|harness|newclient", "%v", err)
			return
		}
		for i := 1; i <= n; i++ {
			err := cl.Connect()
			vrt.WaitIdle()
			if len(recs) < i {
				vrt.Fail("C03|harness|no-connection", "connection %d was never dialled", i)
				return
			}
			r := recs[i-1]
			if err != nil {
				vrt.Fail("C03|error-despite-success|many-connections", "connection %d of the same client (session=%s sm=%v): the server answered every request correctly (steps %v) and Connect failed: %v", i, session, sm, r.Steps, err)
				return
			}
			if len(r.Order) > 0 {
				vrt.Fail("C03|order|many-connections", "connection %d of the same client: %v", i, r.Order)
				return
			}
			_ = cl.Disconnect()
			vrt.WaitIdle()
		}
	}
}

func TestVerifC03(t *testing.T) {
	var scs []hx.Scenario
	for _, insecure := range []bool{true, false} {
		for _, resource := range []bool{true, false} {
			for _, sm := range []bool{false, true} {
				for _, resumable := range []bool{false, true} {
					for _, starttls := range []string{"absent", "offered", "required"} {
						for _, session := range []string{"absent", "optional", "mandatory"} {
							for _, smAdv := range []bool{false, true} {
								if !hx.Thorough() {
									// quick: drop combinations that only multiply independent dimensions
									if resource && (session == "optional" || starttls == "required") {
										continue
									}
								}
								sc := c03cfg{insecure: insecure, resource: resource, sm: sm, resumable: resumable, starttls: starttls, session: session, smAdv: smAdv}
								scs = append(scs, hx.Scenario{Name: sc.name(), Opt: vrt.Options{Bound: thoroughBound(1)}, Body: c03body(sc), Verdict: c03verdict})
							}
						}
					}
				}
			}
		}
	}
	for _, sm := range []bool{false, true} {
		for _, starttls := range []string{"absent", "required"} {
			for _, session := range []string{"absent", "mandatory"} {
				for _, resumable := range []bool{false, true} {
					sc := c03cfg{insecure: true, resource: sm, sm: sm, resumable: resumable, starttls: starttls, session: session, smAdv: true, writeFault: true}
					scs = append(scs, hx.Scenario{Name: sc.name(), Opt: vrt.Options{Bound: 0}, Body: c03body(sc), Verdict: c03verdict})
				}
			}
		}
	}
	for _, insecure := range []bool{true, false} {
		for _, sm := range []bool{false, true} {
			for _, starttls := range []string{"absent", "required"} {
				for _, session := range []string{"absent", "mandatory"} {
					sc := c03cfg{insecure: insecure, sm: sm, starttls: starttls, session: session, smAdv: true, afterFailed: true}
					scs = append(scs, hx.Scenario{Name: sc.name(), Opt: vrt.Options{Bound: 0}, Body: c03body(sc), Verdict: c03verdict})
				}
			}
		}
	}
	for _, insecure := range []bool{true, false} {
		for _, starttls := range []string{"offered", "required"} {
			sc := c03cfg{insecure: insecure, starttls: starttls, session: "absent", logger: true}
			scs = append(scs, hx.Scenario{Name: sc.name(), Opt: vrt.Options{Bound: thoroughBound(1)}, Body: c03body(sc), Verdict: c03verdict})
		}
	}
	for _, session := range []string{"absent", "mandatory"} {
		for _, sm := range []bool{false, true} {
			scs = append(scs, hx.Scenario{Name: fmt.Sprintf("many-connections/n=40/session=%s/sm=%v", session, sm), Opt: vrt.Options{Bound: 0, Horizon: 400000}, Body: c03manyConnections(40, session, sm), Verdict: c03verdict})
		}
	}
	if hx.Main("C03", scs) == 2 {
		t.Fatal("internal error")
	}
}
