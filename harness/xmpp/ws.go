//go:build verif

package xmpp

import (
	"context"
	"encoding/json"
	"fmt"
	"net"
	"net/http"
	"os"
	"os/exec"
	"strings"
	"sync"
	"time"

	"gosrc.io/xmpp/stanza"
	"nhooyr.io/websocket"
	"verif/hx"
)

// WebSocket leg of C05. The WebSocket transport wraps a third-party connection object
// with its own goroutines and timers and cannot be put under the controlled scheduler,
// so this part is an exhaustive enumeration of INPUTS (frame sizes x stanza kinds x
// positions) against the real transport over a loopback socket, free-running. Each case
// runs in a child process: a crash of the receive goroutine kills the process and must
// become a verdict, not a machinery failure. There is no timing oracle: the only clock
// is a generous deadline for "everything was routed".

type wsCase struct {
	Kind  string `json:"kind"`  // message | presence | iq
	Size  int    `json:"size"`  // bytes of padding in the big element
	Burst int    `json:"burst"` // number of small elements sent back-to-back after the big one
	// Cut: the server's TCP connection is closed (no WebSocket close) right after the last frame, while the
	// application is still in its post-connect hook: everything was completely received before the loss and
	// waits in the transport when the receive loop starts
	Cut bool `json:"cut"`
}

// wsListener remembers the connections it accepted, so that the server side can cut one.
type wsListener struct {
	net.Listener
	mu    sync.Mutex
	conns []net.Conn
}

func (l *wsListener) Accept() (net.Conn, error) {
	c, err := l.Listener.Accept()
	if err == nil {
		l.mu.Lock()
		l.conns = append(l.conns, c)
		l.mu.Unlock()
	}
	return c, err
}

type wsResult struct {
	OK     bool   `json:"ok"`
	Key    string `json:"key"`
	Detail string `json:"detail"`
}

const wsFraming = "urn:ietf:params:xml:ns:xmpp-framing"

func wsElement(kind, id string, pad int) (string, string) {
	p := strings.Repeat("w", pad)
	switch kind {
	case "presence":
		return fmt.Sprintf(`<presence xmlns="jabber:client" from="a@localhost" id="%s"><status>%s</status></presence>`, id, p), "presence:" + id
	case "iq":
		return fmt.Sprintf(`<iq xmlns="jabber:client" from="localhost" id="%s" type="result"><query xmlns="jabber:iq:roster"><item jid="x@y" name="%s"/></query></iq>`, id, p), "iq:" + id + ":result"
	}
	return fmt.Sprintf(`<message xmlns="jabber:client" from="a@localhost" id="%s"><body>%s</body></message>`, id, p), "message:" + id
}

// wsChild runs one case in this process and prints the result.
func wsChild(c wsCase) {
	res := wsRun(c)
	b, _ := json.Marshal(res)
	fmt.Println("WSRESULT " + string(b))
}

func wsRun(c wsCase) wsResult {
	var frames, want []string
	add := func(kind, id string, pad int) {
		f, w := wsElement(kind, id, pad)
		frames = append(frames, f)
		want = append(want, w)
	}
	add("message", "before", 1)
	add(c.Kind, "big", c.Size)
	for i := 0; i < c.Burst; i++ {
		add([]string{"message", "presence", "iq"}[i%3], fmt.Sprintf("after%d", i), 3)
	}
	l0, err := net.Listen("tcp", "127.0.0.1:0")
	if err != nil {
		return wsResult{Key: "harness|listen", Detail: err.Error()}
	}
	l := &wsListener{Listener: l0}
	defer l.Close()
	cutDone := make(chan struct{})
	var srvErr string
	var mu sync.Mutex
	hold := make(chan struct{})
	srv := &http.Server{Handler: http.HandlerFunc(func(w http.ResponseWriter, r *http.Request) {
		ws, err := websocket.Accept(w, r, &websocket.AcceptOptions{Subprotocols: []string{"xmpp"}})
		if err != nil {
			return
		}
		ws.SetReadLimit(1 << 20)
		ctx, cancel := context.WithTimeout(context.Background(), 180*time.Second)
		defer cancel()
		fail := func(s string) { mu.Lock(); srvErr = s; mu.Unlock() }
		read := func() string {
			_, data, err := ws.Read(ctx)
			if err != nil {
				fail("read: " + err.Error())
				return ""
			}
			return string(data)
		}
		write := func(s string) {
			if err := ws.Write(ctx, websocket.MessageText, []byte(s)); err != nil {
				fail("write: " + err.Error())
			}
		}
		open := fmt.Sprintf(`<open xmlns="%s" from="localhost" id="ws-stream" version="1.0"/>`, wsFraming)
		if s := read(); !strings.Contains(s, "<open") {
			fail("expected <open/>, got " + s)
			return
		}
		write(open)
		write(`<stream:features xmlns:stream="http://etherx.jabber.org/streams"><mechanisms xmlns="urn:ietf:params:xml:ns:xmpp-sasl"><mechanism>PLAIN</mechanism></mechanisms></stream:features>`)
		if s := read(); !strings.Contains(s, "<auth") {
			fail("expected <auth/>, got " + s)
			return
		}
		write(`<success xmlns="urn:ietf:params:xml:ns:xmpp-sasl"/>`)
		if s := read(); !strings.Contains(s, "<open") {
			fail("expected <open/> (restart), got " + s)
			return
		}
		write(open)
		write(`<stream:features xmlns:stream="http://etherx.jabber.org/streams"><bind xmlns="urn:ietf:params:xml:ns:xmpp-bind"/></stream:features>`)
		b := read()
		write(fmt.Sprintf(`<iq xmlns="jabber:client" type="result" id="%s"><bind xmlns="urn:ietf:params:xml:ns:xmpp-bind"><jid>user@localhost/ws</jid></bind></iq>`, attr(b, "id")))
		if s := read(); !strings.Contains(s, "<presence") {
			fail("expected the initial presence, got " + s)
			return
		}
		for _, f := range frames {
			write(f)
		}
		if c.Cut {
			l.mu.Lock()
			for _, nc := range l.conns {
				nc.Close()
			}
			l.mu.Unlock()
			close(cutDone)
		}
		<-hold
		ws.Close(websocket.StatusNormalClosure, "")
	})}
	go srv.Serve(l)
	defer srv.Close()
	defer close(hold)

	var rmu sync.Mutex
	got := map[string]int{}
	total := 0
	router := NewRouter()
	router.NewRoute().HandlerFunc(func(_ Sender, p stanza.Packet) {
		rmu.Lock()
		got[describePacket(p)]++
		total++
		rmu.Unlock()
	})
	cfg := Config{TransportConfiguration: TransportConfiguration{Address: "ws://" + l.Addr().String() + "/xmpp", Domain: "localhost"},
		Jid: "user@localhost", Credential: Password("secret"), Insecure: true}
	cl, err := NewClient(&cfg, router, func(error) {})
	if err != nil {
		return wsResult{Key: "harness|newclient", Detail: err.Error()}
	}
	if c.Cut {
		cl.PostConnectHook = func() error {
			select {
			case <-cutDone:
			case <-time.After(150 * time.Second):
			}
			time.Sleep(300 * time.Millisecond) // lets the transport's reader run into the end of the connection
			return nil
		}
	}
	if err := cl.Connect(); err != nil {
		mu.Lock()
		se := srvErr
		mu.Unlock()
		return wsResult{Key: "harness|connect", Detail: err.Error() + " / server: " + se}
	}
	deadline := time.Now().Add(150 * time.Second)
	for time.Now().Before(deadline) {
		rmu.Lock()
		n := total
		rmu.Unlock()
		if n >= len(want) {
			break
		}
		time.Sleep(5 * time.Millisecond)
	}
	time.Sleep(50 * time.Millisecond) // a duplicate would show up at once
	rmu.Lock()
	defer rmu.Unlock()
	for _, w := range want {
		if got[w] != 1 {
			cls := "lost"
			if got[w] > 1 {
				cls = "duplicated"
			}
			return wsResult{Key: "routing-" + cls, Detail: fmt.Sprintf("%s routed %d times (routed: %v)", w, got[w], got)}
		}
	}
	return wsResult{OK: true}
}

// wsScenarios are the WebSocket cases of C05, each executed in a child process.
func wsScenarios() []hx.Scenario {
	sizes := []int{1, 3900, 4096, 4200, 8192, 16000, 31000}
	if hx.Thorough() {
		sizes = []int{1, 1000, 3800, 3900, 4000, 4096, 4097, 4200, 5000, 8191, 8192, 8193, 16000, 24000, 31000, 32000}
	}
	var scs []hx.Scenario
	for _, kind := range []string{"message", "presence", "iq"} {
		kind := kind
		scs = append(scs, hx.Scenario{Name: "ws/kind=" + kind, Run: func(c *hx.Ctx) {
			var cases []wsCase
			for _, sz := range sizes {
				for _, burst := range []int{1, 6} {
					wc := wsCase{Kind: kind, Size: sz, Burst: burst}
					if burst == 6 && (sz == 1 || sz == 8192) {
						// the same case once more, with the connection lost before the receive loop starts
						cases = append(cases, wsCase{Kind: kind, Size: sz, Burst: 40, Cut: true})
					}
					cases = append(cases, wc)
				}
			}
			failed := 0
			for _, wc := range cases {
				if c.Expired() || failed >= 2 {
					// (a case that fails waits for its generous deadline: after two of them the verdict is in)
					break
				}
				{
					sz, burst := wc.Size, wc.Burst
					b, _ := json.Marshal(wc)
					cmd := exec.Command(os.Args[0], "-test.run", "^TestVerifC05$", "-test.timeout", "400s")
					cmd.Env = append(os.Environ(), "VERIF_WS_CASE="+string(b), "VERIF_OUT=", "VERIF_SHARD=")
					out, err := cmd.CombinedOutput()
					c.Step(1)
					res := wsResult{}
					found := false
					for _, line := range strings.Split(string(out), "\n") {
						if strings.HasPrefix(line, "WSRESULT ") {
							found = json.Unmarshal([]byte(line[9:]), &res) == nil
						}
					}
					in := fmt.Sprintf("websocket kind=%s size=%d burst=%d cut=%v", kind, sz, burst, wc.Cut)
					c.Eval(in + fmt.Sprint(res.OK, res.Key))
					szc := "small"
					if sz >= 4096 {
						szc = "frame>=4096"
					}
					if !found || !res.OK {
						failed++
					}
					switch {
					case !found:
						tail := string(out)
						if len(tail) > 1500 {
							tail = tail[len(tail)-1500:]
						}
						cls := "crash"
						if strings.Contains(string(out), "panic:") {
							cls = "panic"
						}
						c.Fail("C05|websocket|"+cls+"|"+szc, in, "%s: the client process died (err %v): %s", in, err, tail)
					case strings.HasPrefix(res.Key, "harness"):
						c.Fail("C05|websocket|"+res.Key+"|"+szc, in, "%s: %s", in, res.Detail)
					case !res.OK:
						c.Fail("C05|websocket|"+res.Key+"|"+szc, in, "%s: %s", in, res.Detail)
					}
				}
			}
			c.Sample(map[string]any{"transport": "websocket", "kind": kind, "sizes": sizes})
		}})
	}
	return scs
}
