//go:build verif

package xmpp

import (
	"context"
	"encoding/xml"
	"fmt"
	"strings"
	"testing"

	"verif/hx"

	"gosrc.io/xmpp/stanza"
)

// C06: first matching route only; unhandled IQ requests get exactly one error.

type c06sender struct {
	sent []stanza.Packet
	raw  []string
}

func (s *c06sender) Send(p stanza.Packet) error { s.sent = append(s.sent, p); return nil }
func (s *c06sender) SendIQ(ctx context.Context, iq *stanza.IQ) (chan stanza.IQ, error) {
	s.sent = append(s.sent, iq)
	return nil, nil
}
func (s *c06sender) SendRaw(x string) error { s.raw = append(s.raw, x); return nil }

type c06route struct {
	name  string   // "" = no name matcher
	types []string // nil = no type matcher
	nss   []string // nil = no namespace matcher
}

func (r c06route) String() string {
	return fmt.Sprintf("{name=%s types=%v ns=%v}", r.name, r.types, r.nss)
}

type c06packet struct {
	desc string
	mk   func() stanza.Packet
	// reference view of the packet
	name string // message / presence / iq / ""
	typ  string // effective stanza type ("normal" default for messages); "" for non-stanzas
	ns   string // IQ payload namespace, "" if none
	isIQ bool
	req  bool // get or set
	id   string
	from string
	to   string
}

const (
	c06disco   = "http://jabber.org/protocol/disco#info"
	c06version = "jabber:iq:version"
	c06roster  = "jabber:iq:roster"
)

func c06packets() []c06packet {
	var ps []c06packet
	for _, tag := range []string{"addressed", "bare", "from-only", "to-only"} {
		at := stanza.Attrs{}
		switch tag {
		case "addressed":
			at = stanza.Attrs{Id: "id-7", From: "srv@example.org/a", To: "me@example.org/b"}
		case "from-only":
			at = stanza.Attrs{Id: "id-8", From: "example.org"}
		case "to-only":
			at = stanza.Attrs{Id: "id-9", To: "me@example.org/b"}
		}
		for _, ty := range []string{"", "chat", "normal", "error", "groupchat"} {
			ty, at := ty, at
			eff := ty
			if eff == "" {
				eff = "normal"
			}
			ps = append(ps, c06packet{desc: "message type=" + ty + " " + tag, name: "message", typ: eff, id: at.Id, from: at.From, to: at.To,
				mk: func() stanza.Packet {
					a := at
					a.Type = stanza.StanzaType(ty)
					return stanza.Message{XMLName: xml.Name{Local: "message"}, Attrs: a, Body: "hi"}
				}})
		}
		for _, ty := range []string{"", "unavailable", "error"} {
			ty, at := ty, at
			ps = append(ps, c06packet{desc: "presence type=" + ty + " " + tag, name: "presence", typ: ty, id: at.Id, from: at.From, to: at.To,
				mk: func() stanza.Packet {
					a := at
					a.Type = stanza.StanzaType(ty)
					return stanza.Presence{XMLName: xml.Name{Local: "presence"}, Attrs: a}
				}})
		}
		for _, ty := range []string{"get", "set", "result", "error"} {
			for _, ns := range []string{"", c06disco, c06version, c06roster, "urn:unknown"} {
				ty, ns, at := ty, ns, at
				ps = append(ps, c06packet{desc: "iq type=" + ty + " ns=" + ns + " " + tag, name: "iq", typ: ty, ns: ns, isIQ: true,
					req: ty == "get" || ty == "set", id: at.Id, from: at.From, to: at.To,
					mk: func() stanza.Packet {
						a := at
						a.Type = stanza.StanzaType(ty)
						iq := &stanza.IQ{XMLName: xml.Name{Local: "iq"}, Attrs: a}
						switch ns {
						case c06disco:
							iq.Payload = &stanza.DiscoInfo{XMLName: xml.Name{Space: c06disco, Local: "query"}}
						case c06version:
							iq.Payload = &stanza.Version{XMLName: xml.Name{Space: c06version, Local: "query"}}
						case c06roster:
							iq.Payload = &stanza.Roster{XMLName: xml.Name{Space: c06roster, Local: "query"}}
						case "urn:unknown":
							iq.Any = &stanza.Node{XMLName: xml.Name{Space: "urn:unknown", Local: "x"}}
						}
						return iq
					}})
			}
		}
	}
	// the unknown payload is carried in Any, not Payload: no namespace for the matcher
	for i := range ps {
		if ps[i].ns == "urn:unknown" {
			ps[i].ns = ""
		}
	}
	ps = append(ps,
		c06packet{desc: "stream:error", mk: func() stanza.Packet { return stanza.StreamError{Error: xml.Name{Local: "conflict"}} }},
		c06packet{desc: "stream:features", mk: func() stanza.Packet { return stanza.StreamFeatures{} }},
		c06packet{desc: "sm:r", mk: func() stanza.Packet { return stanza.SMRequest{} }},
		c06packet{desc: "sm:a", mk: func() stanza.Packet { return stanza.SMAnswer{H: 3} }},
		c06packet{desc: "sasl:success", mk: func() stanza.Packet { return stanza.SASLSuccess{} }},
	)
	return ps
}

func c06in(list []string, v string) bool {
	for _, x := range list {
		if x == v {
			return true
		}
	}
	return false
}

// reference: does route accept packet
func c06accepts(r c06route, p c06packet) bool {
	if r.name != "" && r.name != p.name {
		return false
	}
	if r.types != nil {
		if p.name == "" || !c06in(r.types, p.typ) {
			return false
		}
	}
	if r.nss != nil {
		if !p.isIQ || p.ns == "" || !c06in(r.nss, p.ns) {
			return false
		}
	}
	return true
}

func c06routes() []c06route {
	names := []string{"", "message", "presence", "iq"}
	types := [][]string{nil, {"chat"}, {"normal"}, {"get", "set"}, {"result"}, {"error"}, {"unavailable"}, {"set", "error", "get"}}
	nss := [][]string{nil, {c06disco}, {c06disco, c06version}, {c06roster}, {c06version, c06roster, c06disco}}
	var rs []c06route
	for _, n := range names {
		for _, t := range types {
			for _, s := range nss {
				rs = append(rs, c06route{n, t, s})
			}
		}
	}
	return rs
}

// c06case writes matcher values the way a user might: the builders are documented to
// lower-case them. Style 0 = as is, 1 = first letter of every other value upper-cased,
// 2 = everything upper-cased.
func c06case(vals []string, style int) []string {
	out := make([]string, len(vals))
	for i, v := range vals {
		switch {
		case style == 2:
			out[i] = strings.ToUpper(v)
		case style == 1 && i%2 == 0:
			out[i] = strings.ToUpper(v[:1]) + v[1:]
		default:
			out[i] = v
		}
	}
	return out
}

var c06style int
var c06api int // 0: NewRoute().Packet(..)...HandlerFunc; 1: HandleFunc(name, f)...; 2: Handle(name, h)...

func c06build(table []c06route, log *[]int) *Router {
	r := NewRouter()
	for i, rt := range table {
		i := i
		h := func(s Sender, p stanza.Packet) { *log = append(*log, i) }
		var route *Route
		// the public builder API, with the capitalisation a user might write; c06api: the short forms Handle and
		// HandleFunc (name and handler first, the other matchers added to what they return) for routes with a name
		switch {
		case rt.name != "" && c06api == 1:
			route = r.HandleFunc(strings.ToUpper(rt.name[:1])+rt.name[1:], h)
		case rt.name != "" && c06api == 2:
			route = r.Handle(rt.name, HandlerFunc(h))
		default:
			route = r.NewRoute()
			if rt.name != "" {
				route.Packet(strings.ToUpper(rt.name[:1]) + rt.name[1:])
			}
		}
		if rt.types != nil {
			route.StanzaType(c06case(rt.types, c06style)...)
		}
		if rt.nss != nil {
			route.IQNamespaces(c06case(rt.nss, c06style)...)
		}
		if rt.name == "" || c06api == 0 {
			route.HandlerFunc(h)
		}
	}
	return r
}

func c06run(c *hx.Ctx, table []c06route, packets []c06packet) {
	for _, p := range packets {
		var log []int
		r := c06build(table, &log)
		snd := &c06sender{}
		pk := p.mk()
		r.route(snd, pk)
		c.Step(1)
		want := -1
		for i, rt := range table {
			if c06accepts(rt, p) {
				want = i
				break
			}
		}
		c.Eval(fmt.Sprintf("%v|%d|%s|%v|%d", table, c06api, p.desc, log, len(snd.sent)))
		in := fmt.Sprintf("table=%v api=%d packet=%s", table, c06api, p.desc)
		kind := p.name
		if kind == "" {
			kind = "nonstanza"
		}
		if want >= 0 {
			if len(log) != 1 || log[0] != want {
				c.Fail("C06|wrong-handlers|"+kind, in, "%s: handlers run %v, reference [%d]", in, log, want)
			}
			if len(snd.sent)+len(snd.raw) != 0 {
				c.Fail("C06|reply-despite-match|"+kind, in, "%s: matched but %d packets were sent", in, len(snd.sent)+len(snd.raw))
			}
			continue
		}
		if len(log) != 0 {
			c.Fail("C06|handler-without-match|"+kind, in, "%s: handlers run %v, reference none", in, log)
		}
		if p.req {
			if len(snd.sent) != 1 || len(snd.raw) != 0 {
				c.Fail("C06|request-error-count", in, "%s: unmatched IQ request answered with %d packets (+%d raw), want exactly 1", in, len(snd.sent), len(snd.raw))
				continue
			}
			rep, ok := snd.sent[0].(*stanza.IQ)
			if !ok {
				c.Fail("C06|request-error-kind", in, "%s: reply is %T", in, snd.sent[0])
				continue
			}
			if rep.Type != "error" || rep.Id != p.id || rep.From != p.to || rep.To != p.from {
				c.Fail("C06|request-error-addressing", in, "%s: reply type=%s id=%q from=%q to=%q; want error, %q, %q, %q", in, rep.Type, rep.Id, rep.From, rep.To, p.id, p.to, p.from)
			}
			if rep.Error == nil || rep.Error.Reason != "feature-not-implemented" {
				c.Fail("C06|request-error-condition", in, "%s: reply error %+v, want feature-not-implemented", in, rep.Error)
			} else {
				// the reply as serialized must carry the condition too
				b, err := xml.Marshal(rep)
				if err != nil || !strings.Contains(string(b), "feature-not-implemented") || !strings.Contains(string(b), `type="error"`) {
					c.Fail("C06|request-error-wire", in, "%s: serialized reply %q (err %v)", in, b, err)
				}
			}
		} else if len(snd.sent)+len(snd.raw) != 0 {
			c.Fail("C06|reply-to-non-request|"+kind, in, "%s: %d packets sent for an unmatched non-request", in, len(snd.sent)+len(snd.raw))
		}
	}
}

func TestVerifC06(t *testing.T) {
	routes := c06routes()
	packets := c06packets()
	var scs []hx.Scenario
	scs = append(scs, hx.Scenario{Name: "tables<=1", Run: func(c *hx.Ctx) {
		c06run(c, nil, packets)
		for style := 0; style < 3; style++ {
			c06style = style
			for _, r := range routes {
				c06run(c, []c06route{r}, packets)
			}
		}
		c06style = 0
		for c06api = 1; c06api <= 2; c06api++ {
			for _, r := range routes {
				c06run(c, []c06route{r}, packets)
			}
		}
		c06api = 0
		c.Sample(map[string]any{"table": []string{routes[5].String()}, "packets": len(packets)})
	}})
	for i := range routes {
		i := i
		scs = append(scs, hx.Scenario{Name: fmt.Sprintf("tables=2/first=%d", i), Run: func(c *hx.Ctx) {
			for _, r2 := range routes {
				c06style = 0
				c06run(c, []c06route{routes[i], r2}, packets)
				c06style = 1
				c06run(c, []c06route{routes[i], r2}, packets[:40])
				c06style = 0
				if routes[i].name != "" || r2.name != "" {
					for c06api = 1; c06api <= 2; c06api++ {
						c06run(c, []c06route{routes[i], r2}, packets[:40])
					}
					c06api = 0
				}
			}
			c06style = 0
			c.Sample(map[string]any{"table": []string{routes[i].String(), routes[len(routes)-1].String()}})
		}})
	}
	// three routes: thorough = all; quick = families with a catch-all first/middle/last and same-name triples
	if hx.Thorough() {
		for i := range routes {
			i := i
			scs = append(scs, hx.Scenario{Name: fmt.Sprintf("tables=3/first=%d", i), Run: func(c *hx.Ctx) {
				for _, r2 := range routes {
					for _, r3 := range routes {
						c06run(c, []c06route{routes[i], r2, r3}, packets)
					}
				}
			}})
		}
	} else {
		for i := range routes {
			i := i
			scs = append(scs, hx.Scenario{Name: fmt.Sprintf("tables=3/catchall/with=%d", i), Run: func(c *hx.Ctx) {
				ca := c06route{}
				for _, r2 := range routes {
					c06run(c, []c06route{ca, routes[i], r2}, packets[:20])
					c06run(c, []c06route{routes[i], ca, r2}, packets[:20])
					c06run(c, []c06route{routes[i], r2, ca}, packets)
				}
			}})
		}
	}
	scs = append(scs, c06senderScenarios(routes, packets)...)
	if hx.Main("C06", scs) == 2 {
		t.Fatal("internal error")
	}
}
