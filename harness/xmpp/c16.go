//go:build verif

package xmpp

import (
	"crypto/sha1"
	"encoding/hex"
	"fmt"
	"html"
	"strings"
	"testing"

	"gosrc.io/xmpp/stanza"
	"verif/hx"
	"verif/vnet"
	"verif/vrt"
)

// C16: component handshake digest and reply handling.

func xmlAttrEscape(s string) string {
	r := strings.NewReplacer("&", "&amp;", "<", "&lt;", ">", "&gt;", "'", "&#x27;", "\"", "&quot;")
	return r.Replace(s)
}

var c16ids = []string{"b3c2-uuid-4f", "", "a<b", "'q'", "é", strings.Repeat("i", 200), "with two  spaces", "a&b", "0"}
var c16replies = []string{"handshake", "error-conflict", "error-host-unknown", "error-not-authorized", "message", "features", "malformed", "close",
	"handshake-cut", "handshake-then-stream-close", "handshake-bad-entity", "handshake-bad-end-tag",
	"unknown-namespace-then-handshake", "unknown-name-then-handshake", "handshake-other-namespace", "handshake-client-namespace", "handshake-server-namespace"}

func c16reply(r string) string {
	switch r {
	case "handshake":
		return "<handshake/>"
	case "error-conflict":
		return "<stream:error><conflict xmlns='urn:ietf:params:xml:ns:xmpp-streams'/></stream:error>"
	case "error-host-unknown":
		return "<stream:error><host-unknown xmlns='urn:ietf:params:xml:ns:xmpp-streams'/></stream:error>"
	case "error-not-authorized":
		return "<stream:error><not-authorized xmlns='urn:ietf:params:xml:ns:xmpp-streams'/><text xmlns='urn:ietf:params:xml:ns:xmpp-streams'>bad</text></stream:error>"
	case "message":
		return "<message from='x@example.org' to='comp.example.org'><body>early</body></message>"
	case "features":
		return "<stream:features/>"
	case "malformed":
		return malformedXML
	// replies that only BEGIN like a handshake element: not a handshake element
	case "handshake-cut":
		return "<handshake>"
	case "handshake-then-stream-close":
		return "<handshake></stream:stream>"
	case "handshake-bad-entity":
		return "<handshake>&bogus;</handshake>"
	case "handshake-bad-end-tag":
		return "<handshake>abc</handshak>"
	// something else first, then what would have been the right answer: the answer was not a handshake
	case "unknown-namespace-then-handshake":
		return "<csi xmlns='urn:xmpp:csi:0'/><handshake/>"
	case "unknown-name-then-handshake":
		return "<blob/><handshake/>"
	case "handshake-other-namespace":
		return "<handshake xmlns='urn:other'/>"
	// an element called handshake in one of the other namespaces the library decodes stanzas of
	case "handshake-client-namespace":
		return "<handshake xmlns='jabber:client'/>"
	case "handshake-server-namespace":
		return "<handshake xmlns='jabber:server'/>"
	}
	return ""
}

func c16class(s string) string {
	switch {
	case s == "":
		return "empty"
	case strings.ContainsAny(s, "<>&'\""):
		return "escaped-chars"
	case !isASCII(s):
		return "non-ascii"
	case len(s) > 100:
		return "long"
	case strings.Contains(s, " "):
		return "spaces"
	}
	return "plain"
}

// second connections of the same Component (what StreamManager does after a loss): ids and replies of the
// second stream
var c16ids2 = []string{"second-stream-id", "b3c2-uuid-4f", ""}
var c16replies2 = []string{"handshake", "error-not-authorized", "message", "close", "handshake-client-namespace"}

func c16body(secret string, rounds int) func() {
	return func() {
		ids := []string{c16ids[vrt.ChooseFree("streamid", len(c16ids))]}
		replies := []string{c16replies[vrt.ChooseFree("reply", len(c16replies))]}
		if rounds == 2 {
			// the first stream: a small alphabet (established then closed by us, refused, cut)
			ids[0] = []string{"first-stream-id", "a<b"}[vrt.ChooseFree("streamid", 2)]
			replies[0] = []string{"handshake", "error-not-authorized", "close"}[vrt.ChooseFree("reply", 3)]
			ids = append(ids, c16ids2[vrt.ChooseFree("streamid2", len(c16ids2))])
			replies = append(replies, c16replies2[vrt.ChooseFree("reply2", len(c16replies2))])
		}
		// how an established first session ends: the component disconnects (the server just closes) / the component
		// disconnects, waits for the server's stream close (ConnectTimeout set) and gets it / the server ends the stream
		ending := "disconnect"
		if rounds == 2 && replies[0] == "handshake" {
			ending = []string{"disconnect", "disconnect-acknowledged", "server-ends-stream"}[vrt.ChooseFree("ending", 3)]
			hx.Symbol("ending=" + ending)
		}
		for _, r := range replies {
			hx.Symbol("reply=" + r)
		}
		var curSrv *srvConn
		w := vnet.NewWorld()
		var hs []string
		var srvUnits []string
		probeSent := false
		id, reply := ids[0], replies[0]
		w.Listen("example.org:5347", &vnet.Listener{Accept: func(k int, c *vnet.Conn) (func(), error) {
			s := newSrvConn(k, c)
			return func() {
				id, reply := id, reply
				if k < len(ids) {
					id, reply = ids[k], replies[k]
				}
				u := s.read()
				if u.kind == "prolog" {
					u = s.read()
				}
				if u.kind != "open" {
					srvUnits = append(srvUnits, "no-open:"+u.String())
					s.close()
					return
				}
				s.send(fmt.Sprintf("<?xml version='1.0'?><stream:stream xmlns='jabber:component:accept' xmlns:stream='http://etherx.jabber.org/streams' from='comp.example.org' id='%s'>", xmlAttrEscape(id)))
				u = s.read()
				if u.kind != "element" || u.name != "handshake" {
					srvUnits = append(srvUnits, "no-handshake:"+u.String())
					s.close()
					return
				}
				hs = append(hs, u.raw)
				if reply == "close" {
					s.close()
					return
				}
				s.send(c16reply(reply))
				if reply == "handshake-cut" {
					s.close()
					return
				}
				if reply == "handshake" {
					s.send("<message from='x@example.org' to='comp.example.org' id='probe'><body>probe</body></message>")
					probeSent = true
				}
				curSrv = s
				for {
					u := s.read()
					if u.kind == "close" && ending == "disconnect-acknowledged" {
						s.send("</stream:stream>")
					}
					if u.kind == "eof" || u.kind == "close" {
						s.close()
						return
					}
				}
			}, nil
		}})
		router := NewRouter()
		var routed []string
		router.NewRoute().HandlerFunc(func(s Sender, p stanza.Packet) {
			if m, ok := p.(stanza.Message); ok {
				routed = append(routed, "message:"+m.Id+":"+m.Body)
			} else {
				routed = append(routed, p.Name())
			}
		})
		var events []ConnState
		opts := ComponentOptions{TransportConfiguration: TransportConfiguration{Address: "example.org:5347", Domain: "comp.example.org"},
			Domain: "comp.example.org", Secret: secret, Name: "t", Category: "gateway", Type: "service"}
		if ending == "disconnect-acknowledged" {
			opts.ConnectTimeout = 5
		}
		comp, err := NewComponent(opts, router, func(error) { vrt.Log("errorhandler") })
		if err != nil {
			vrt.Fail("C16|harness|newcomponent", "%v", err)
			return
		}
		comp.SetHandler(func(e Event) error { events = append(events, e.State.state); return nil })
		for round := 0; round < rounds; round++ {
			id, reply = ids[round], replies[round]
			hs, routed, events, probeSent = nil, nil, nil, false
			err = comp.Connect()
			vrt.WaitIdle()
			state := comp.CurrentState.getState()
			vrt.Log("id=%q reply=%s err=%v state=%d routed=%v hs=%v", id, reply, err != nil, state, routed, hs)
			in := fmt.Sprintf("streamid=%q secret=%q reply=%s", id, secret, reply)
			which := ""
			if round > 0 {
				in = fmt.Sprintf("second connection of the component (first: streamid=%q reply=%s) streamid=%q secret=%q reply=%s", ids[0], replies[0], id, secret, reply)
				which = "|second-connection"
			}
			if len(hs) != 1 {
				vrt.Fail("C16|no-handshake-sent", "%s: handshake elements %v, other %v", in, hs, srvUnits)
				return
			}
			// independent digest
			sum := sha1.Sum([]byte(id + secret))
			want := hex.EncodeToString(sum[:])
			got := hs[0]
			i, j := strings.Index(got, ">"), strings.LastIndex(got, "</")
			text := ""
			if i >= 0 && j > i {
				text = html.UnescapeString(got[i+1 : j])
			}
			if text != want {
				vrt.Fail("C16|digest-wrong|id="+c16class(id)+"|secret="+c14strClass(secret)+which, "%s: handshake text %q, want sha1(id+secret) = %q", in, text, want)
			}
			est := state == StateSessionEstablished
			annEst := false
			for _, s := range events {
				if s == StateSessionEstablished {
					annEst = true
				}
			}
			if reply == "handshake" {
				if err != nil || !est {
					vrt.Fail("C16|handshake-not-established", "%s: err=%v state=%d", in, err, state)
				} else if !annEst {
					vrt.Fail("C16|established-not-announced", "%s: the handler set with SetHandler never saw the established state (events %v)", in, events)
				}
				if probeSent && (len(routed) != 1 || routed[0] != "message:probe:probe") {
					vrt.Fail("C16|stanza-not-routed-after-handshake", "%s: routed %v", in, routed)
				}
			} else {
				if err == nil {
					vrt.Fail("C16|success-without-handshake|reply="+reply, "%s: Connect returned nil", in)
				}
				if est || annEst {
					vrt.Fail("C16|established-without-handshake|reply="+reply, "%s: state=%d events=%v", in, state, events)
				}
				if len(routed) != 0 {
					vrt.Fail("C16|routed-without-handshake|reply="+reply, "%s: routed %v", in, routed)
				}
			}
			if round+1 < rounds {
				if err == nil {
					if ending == "server-ends-stream" && curSrv != nil {
						curSrv.send("</stream:stream>")
						vrt.WaitIdle()
						curSrv.close()
					} else {
						comp.Disconnect()
					}
				}
				vrt.WaitIdle()
			}
		}
	}
}

func TestVerifC16(t *testing.T) {
	var scs []hx.Scenario
	secrets := c14strings
	for i, sec := range secrets {
		scs = append(scs, hx.Scenario{Name: fmt.Sprintf("secret#%d=%s", i, c14strClass(sec)), Opt: vrt.Options{Bound: thoroughBound(2)}, Body: c16body(sec, 1),
			Verdict: func(e *vrt.Exec) {
				if e.Panic != nil {
					vrt.Fail("C16|panic", "%s %s", e.Panic.Value, trimStack(e.Panic.Stack))
				} else if e.Deadlock {
					vrt.Fail("C16|hang", "blocked: %s", e.BlockedSummary())
				}
			}})
	}
	for i, sec := range []string{"s3cr3t", "é<&>"} {
		scs = append(scs, hx.Scenario{Name: fmt.Sprintf("reconnect/secret#%d", i), Opt: vrt.Options{Bound: thoroughBound(1)}, Body: c16body(sec, 2),
			Verdict: func(e *vrt.Exec) {
				if e.Panic != nil {
					vrt.Fail("C16|panic", "%s %s", e.Panic.Value, trimStack(e.Panic.Stack))
				} else if e.Deadlock {
					vrt.Fail("C16|hang", "blocked: %s", e.BlockedSummary())
				}
			}})
	}
	if hx.Main("C16", scs) == 2 {
		t.Fatal("internal error")
	}
}
