#!/bin/bash
# usage: mkmut.sh <name> <property[,property]> <expect: violation|silent> <needs text> -- <shell command run inside a scratch copy of /repo to make the change>
set -e
name=$1; props=$2; expect=$3; needs=$4; shift 5
tmp=/tmp/mkmut-$$; rm -rf $tmp; mkdir -p $tmp
rsync -a --exclude .git /repo/ $tmp/a/; rsync -a --exclude .git /repo/ $tmp/b/
(cd $tmp/b && bash -c "$*")
mkdir -p /verif/seeded/$name
(cd $tmp && diff -ruN a b | sed 's#^--- a/#--- a/#; s#^+++ b/#+++ b/#' > /verif/seeded/$name/patch.diff) || true
if [ ! -s /verif/seeded/$name/patch.diff ]; then echo "EMPTY PATCH for $name"; rm -rf $tmp; exit 1; fi
(cd $tmp/b && GOFLAGS=-mod=mod GOPROXY=off GOSUMDB=off GOTOOLCHAIN=local go build ./... ) || { echo "DOES NOT BUILD: $name"; rm -rf $tmp; exit 1; }
python3 - "$name" "$props" "$expect" "$needs" "$*" <<'PY'
import json,sys
name,props,expect,needs,cmd=sys.argv[1:6]
json.dump({"property":props.split(","),"expect":expect,"origin":"own mutant (written while building the checks)","needs":needs,"made_by":cmd},open("/verif/seeded/%s/meta.json"%name,"w"),indent=1)
PY
rm -rf $tmp; echo "made $name"
