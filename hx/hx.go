// Package hx is the harness-side support library: scenario registration, sharding,
// result files and replay, shared by all checks (scheduler-driven and plain
// exhaustive enumerations alike).
package hx

import (
	"encoding/json"
	"fmt"
	"hash/fnv"
	"os"
	"sort"
	"strconv"
	"strings"
	"sync"
	"time"

	"verif/vrt"
)

// Scenario is one unit of work (and of sharding).
type Scenario struct {
	Name string
	// Sched scenario: explored under the controlled scheduler.
	Opt     vrt.Options
	Body    func()
	Verdict vrt.Verdict
	// Enum scenario: plain exhaustive enumeration; Run reports through *Ctx.
	Run func(c *Ctx)
}

type Violation struct {
	Scenario string   `json:"scenario"`
	Key      string   `json:"key"`
	Detail   string   `json:"detail"`
	Choices  []int    `json:"choices,omitempty"`
	Input    string   `json:"input,omitempty"`
	Trace    []string `json:"trace,omitempty"`
	Obs      []string `json:"obs,omitempty"`
}

type Result struct {
	Property    string            `json:"property"`
	Tier        string            `json:"tier"`
	Shard       string            `json:"shard"`
	Scenarios   int               `json:"scenarios"`
	Executions  int               `json:"executions"`
	Transitions int               `json:"transitions"`
	States      int               `json:"states"`
	Outcomes    int               `json:"outcomes"`
	MaxDepth    int               `json:"max_depth"`
	Violations  []Violation       `json:"violations"`
	Caps        []string          `json:"caps"`
	Internal    string            `json:"internal"`
	Samples     []json.RawMessage `json:"samples"`
	Symbols     map[string]int    `json:"symbols"`
	WallS       float64           `json:"wall_s"`
	OutcomeSet  []uint64          `json:"outcome_set,omitempty"`
	StateSet    []uint64          `json:"state_set,omitempty"`
}

// Ctx is handed to enumeration scenarios.
type Ctx struct {
	name     string
	res      *Result
	outcomes map[uint64]struct{}
	states   map[uint64]struct{}
	seenKey  map[string]bool
	samples  int
	deadline time.Time
	Capped   bool
	evals    int
}

func h64(s string) uint64 {
	h := fnv.New64a()
	h.Write([]byte(s))
	return h.Sum64()
}

// Beat tells the stall watchdog that the enumeration is alive and what it is about to do. A
// scenario that calls Beat before every call into the code under test turns a call that never
// returns (busy loop, blocked read) into a violation instead of a hung check: after stallAfter
// without a beat the watchdog records key/detail, writes the result file and ends the process.
func (c *Ctx) Beat(key, detail string) {
	beatMu.Lock()
	beatN++
	beatKey, beatDetail, beatScenario, beatCtx = key, detail, c.name, c
	beatMu.Unlock()
}

var (
	beatMu       sync.Mutex
	beatN        int64
	beatKey      string
	beatDetail   string
	beatScenario string
	beatCtx      *Ctx
	stallAfter   = 45 * time.Second
)

// Eval counts one evaluated case with its (canonical) outcome.
func (c *Ctx) Eval(outcome string) {
	c.evals++
	c.res.Executions++
	c.outcomes[h64(outcome)] = struct{}{}
}

// State counts a distinct canonical state (explicit-state searches).
func (c *Ctx) State(canon string) bool {
	k := h64(c.name + "\x00" + canon)
	if _, ok := c.states[k]; ok {
		return false
	}
	c.states[k] = struct{}{}
	return true
}

// Step counts implementation calls (transitions).
func (c *Ctx) Step(n int) { c.res.Transitions += n }

// Sample records an example case (a few per scenario are kept).
func (c *Ctx) Sample(v any) {
	if c.samples >= 2 || len(c.res.Samples) >= 12 {
		return
	}
	c.samples++
	b, _ := json.Marshal(v)
	c.res.Samples = append(c.res.Samples, b)
}

// Symbol counts that a symbol of the fault/input alphabet was exercised.
func (c *Ctx) Symbol(s string) { c.res.Symbols[s]++ }

// Fail records a violation; only the first per key and scenario is kept.
func (c *Ctx) Fail(key, input, format string, a ...any) {
	if c.seenKey[key] {
		return
	}
	c.seenKey[key] = true
	c.res.Violations = append(c.res.Violations, Violation{Scenario: c.name, Key: key, Detail: fmt.Sprintf(format, a...), Input: input})
}

// Expired reports whether the soft deadline passed (checked every so often by long loops).
func (c *Ctx) Expired() bool {
	if c.Capped {
		return true
	}
	if !c.deadline.IsZero() && c.evals%1024 == 0 && time.Now().After(c.deadline) {
		c.Capped = true
	}
	return c.Capped
}

// Tier returns the tier requested for this run.
func Tier() string {
	t := os.Getenv("VERIF_TIER")
	if t == "" {
		t = "quick"
	}
	return t
}

func Thorough() bool { return Tier() == "thorough" }

// Symbol counts an alphabet symbol from scheduler-driven bodies.
var curRes *Result

func Symbol(s string) {
	if curRes != nil {
		curRes.Symbols[s]++
	}
}

// Main runs the scenarios of one property according to the environment:
// VERIF_SHARD=i/n, VERIF_OUT=file, VERIF_REPLAY=file, VERIF_DEADLINE_S=seconds.
func Main(property string, scenarios []Scenario) int {
	start := time.Now()
	res := &Result{Property: property, Tier: Tier(), Symbols: map[string]int{}}
	curRes = res
	shard, nshard := 0, 1
	if s := os.Getenv("VERIF_SHARD"); s != "" {
		fmt.Sscanf(s, "%d/%d", &shard, &nshard)
		res.Shard = s
	}
	var deadline time.Time
	if s := os.Getenv("VERIF_DEADLINE_S"); s != "" {
		if n, err := strconv.Atoi(s); err == nil && n > 0 {
			deadline = start.Add(time.Duration(n) * time.Second)
		}
	}
	names := map[string]bool{}
	for _, sc := range scenarios {
		if names[sc.Name] {
			res.Internal = "duplicate scenario name " + sc.Name
		}
		names[sc.Name] = true
	}
	if rp := os.Getenv("VERIF_REPLAY"); rp != "" {
		return replay(rp, scenarios)
	}
	only := os.Getenv("VERIF_ONLY")
	outcomes := map[uint64]struct{}{}
	states := map[uint64]struct{}{}
	// stall watchdog (see Ctx.Beat)
	go func() {
		var last int64 = -1
		var since time.Time
		for {
			time.Sleep(3 * time.Second)
			beatMu.Lock()
			n, key, detail, scn := beatN, beatKey, beatDetail, beatScenario
			beatMu.Unlock()
			if n == 0 {
				continue
			}
			if n != last {
				last, since = n, time.Now()
				continue
			}
			if time.Since(since) < stallAfter {
				continue
			}
			res.Violations = append(res.Violations, Violation{Scenario: scn, Key: key, Detail: detail + fmt.Sprintf(" - the call did not return within %s", stallAfter)})
			res.Caps = append(res.Caps, "aborted after a non-terminating call in "+scn)
			res.States, res.Outcomes = len(states), len(outcomes)
			res.WallS = time.Since(start).Seconds()
			b, _ := json.Marshal(res)
			if out := os.Getenv("VERIF_OUT"); out != "" {
				os.WriteFile(out, b, 0644)
			} else {
				fmt.Println(string(b))
			}
			os.Exit(0)
		}
	}()
	curScenario := ""
	vrt.StuckHook = func(site, stack string) {
		if len(stack) > 3000 {
			stack = stack[:3000]
		}
		res.Violations = append(res.Violations, Violation{Scenario: curScenario, Key: property + "|busy-loop|" + site,
			Detail: "a goroutine of the code under test ran for a minute without reaching any synchronisation, channel, timer or network operation (a loop that never blocks): " + stack})
		res.Caps = append(res.Caps, "aborted after a busy loop in "+curScenario)
		res.States, res.Outcomes = len(states), len(outcomes)
		res.WallS = time.Since(start).Seconds()
		b, _ := json.Marshal(res)
		if out := os.Getenv("VERIF_OUT"); out != "" {
			os.WriteFile(out, b, 0644)
		} else {
			fmt.Println(string(b))
		}
		os.Exit(0)
	}
	for i, sc := range scenarios {
		split := sc.Run == nil && sc.Opt.SplitDepth > 0
		if (!split && i%nshard != shard) || res.Internal != "" {
			continue
		}
		if only != "" && !strings.Contains(sc.Name, only) {
			continue
		}
		res.Scenarios++
		if !deadline.IsZero() && time.Now().After(deadline) {
			res.Caps = append(res.Caps, "deadline before scenario "+sc.Name)
			continue
		}
		if sc.Run != nil {
			c := &Ctx{name: sc.Name, res: res, outcomes: outcomes, states: states, seenKey: map[string]bool{}, deadline: deadline}
			func() {
				defer func() {
					if r := recover(); r != nil {
						c.Fail("panic", "", "panic in enumeration: %v", r)
					}
				}()
				sc.Run(c)
			}()
			if c.Capped {
				res.Caps = append(res.Caps, "deadline in "+sc.Name)
			}
			beatMu.Lock()
			beatN = 0
			beatMu.Unlock()
			continue
		}
		var st vrt.Stats
		curScenario = sc.Name
		opt := sc.Opt
		opt.Name = sc.Name
		opt.Deadline = deadline
		if split {
			opt.Shard, opt.NShard = shard, nshard
		}
		vrt.Explore(opt, sc.Body, sc.Verdict, &st)
		res.Executions += st.Executions
		res.Transitions += st.Transitions
		if st.MaxDepth > res.MaxDepth {
			res.MaxDepth = st.MaxDepth
		}
		nm := h64(sc.Name)
		for k := range st.States {
			states[k^nm] = struct{}{}
		}
		for k := range st.Outcomes {
			outcomes[k^nm] = struct{}{} // distinct (scenario, observation log) pairs
		}
		if st.Capped != "" {
			res.Caps = append(res.Caps, st.Capped)
		}
		if st.Internal != "" {
			res.Internal = st.Internal
		}
		for _, v := range st.Violations {
			res.Violations = append(res.Violations, Violation{Scenario: v.Scenario, Key: v.Key, Detail: v.Detail, Choices: v.Choices, Trace: v.Trace, Obs: v.Obs})
		}
		if len(res.Samples) < 6 && st.SampleObs != nil {
			b, _ := json.Marshal(map[string]any{"scenario": sc.Name, "choices": st.SampleChoice, "observations": st.SampleObs})
			res.Samples = append(res.Samples, b)
		}
	}
	res.States = len(states)
	res.Outcomes = len(outcomes)
	for k := range outcomes {
		res.OutcomeSet = append(res.OutcomeSet, k)
	}
	if len(states) <= 3000000 {
		for k := range states {
			res.StateSet = append(res.StateSet, k)
		}
	}
	sort.Slice(res.OutcomeSet, func(i, j int) bool { return res.OutcomeSet[i] < res.OutcomeSet[j] })
	res.WallS = time.Since(start).Seconds()
	b, _ := json.Marshal(res)
	if out := os.Getenv("VERIF_OUT"); out != "" {
		if err := os.WriteFile(out, b, 0644); err != nil {
			fmt.Fprintln(os.Stderr, "hx: cannot write result:", err)
			return 2
		}
	} else {
		var pretty Result = *res
		pretty.OutcomeSet = nil
		pretty.StateSet = nil
		for i := range pretty.Violations {
			pretty.Violations[i].Trace = nil
		}
		pb, _ := json.MarshalIndent(pretty, "", " ")
		fmt.Println(string(pb))
	}
	if res.Internal != "" {
		fmt.Fprintln(os.Stderr, "hx: INTERNAL:", res.Internal)
		return 2
	}
	return 0
}

type replayFile struct {
	Property string `json:"property"`
	Scenario string `json:"scenario"`
	Key      string `json:"key"`
	Choices  []int  `json:"choices"`
	Input    string `json:"input"`
}

func replay(path string, scenarios []Scenario) int {
	b, err := os.ReadFile(path)
	if err != nil {
		fmt.Fprintln(os.Stderr, "hx: replay:", err)
		return 2
	}
	var rf replayFile
	if err := json.Unmarshal(b, &rf); err != nil {
		fmt.Fprintln(os.Stderr, "hx: replay:", err)
		return 2
	}
	for _, sc := range scenarios {
		if sc.Name != rf.Scenario {
			continue
		}
		if sc.Run != nil {
			res := &Result{Symbols: map[string]int{}}
			c := &Ctx{name: sc.Name, res: res, outcomes: map[uint64]struct{}{}, states: map[uint64]struct{}{}, seenKey: map[string]bool{}}
			sc.Run(c)
			hit := false
			for _, v := range res.Violations {
				fmt.Printf("violation key=%s input=%q\n  %s\n", v.Key, v.Input, v.Detail)
				if v.Key == rf.Key {
					hit = true
				}
			}
			if hit {
				fmt.Printf("REPRODUCED key=%s\n", rf.Key)
				return 1
			}
			fmt.Printf("NOT-REPRODUCED key=%s\n", rf.Key)
			return 0
		}
		opt := sc.Opt
		opt.Name = sc.Name
		opt.Trace = true
		e := vrt.RunOnce(opt, rf.Choices, sc.Body, nil)
		if sc.Verdict != nil {
			vrt.WithExec(e, func() { sc.Verdict(e) })
		}
		for _, l := range e.Trace {
			fmt.Println(l)
		}
		hit := false
		for _, f := range e.Fails {
			fmt.Printf("violation key=%s\n  %s\n", f.Key, f.Detail)
			if f.Key == rf.Key {
				hit = true
			}
		}
		if e.Panic != nil {
			fmt.Printf("panic in T%d (%s): %s\n%s\n", e.Panic.Thread, e.Panic.Site, e.Panic.Value, e.Panic.Stack)
		}
		if hit {
			fmt.Printf("REPRODUCED key=%s\n", rf.Key)
			return 1
		}
		fmt.Printf("NOT-REPRODUCED key=%s\n", rf.Key)
		return 0
	}
	fmt.Fprintln(os.Stderr, "hx: replay: unknown scenario", rf.Scenario)
	return 2
}
