#!/usr/bin/env python3
"""Regenerates MANIFEST.json from checks.json (claimed checks) and properties.jsonl."""
import json, os
V = os.path.dirname(os.path.abspath(__file__))
checks = json.load(open(os.path.join(V, "checks.json")))
props = [json.loads(l) for l in open(os.path.join(V, "properties.jsonl"))]
na_reasons = json.load(open(os.path.join(V, "not_applicable.json"))) if os.path.exists(os.path.join(V, "not_applicable.json")) else {}
m = {
 "version": 1,
 "setup_cmd": "./verif setup",
 "hooks": {
  "guard": "verif",
  "enable": "no hook is committed in /repo: every check copies /repo's working tree to /tmp/verif-scratch/<check>-<pid>/, rewrites the copy with cmd/vinstr (sync/go/chan/select/time/net.Dial/rand/context -> verif/vrt, verif/vnet), drops harness/*.go in as zz_verif_*_test.go (build tag verif) and builds with `go test -c -tags verif`",
  "baseline_off_cmd": "cd /repo && GOFLAGS=-mod=mod GOPROXY=off GOSUMDB=off go test -json -vet=off -count=1 -timeout 25m ./...",
  "source_commits": [],
  "add_only": True
 },
 "engines": [
  {"name": "vrt+vinstr (Engine S)", "path": "vrt/, vnet/, cmd/vinstr/", "kind_free_text": "hand-written stateless model checker for Go: source rewriting puts goroutines, mutexes, channels, select, timers, contexts, dialing and rand under a cooperative scheduler with a virtual clock and in-memory network; depth-first enumeration of all schedules and environment answers by prefix replay, bounded by preemptions+deviations",
   "serves_properties": [p for p, c in checks.items() if c.get("engine", "E") == "S"]},
  {"name": "exhaustive enumeration / explicit-state search (Engine E)", "path": "hx/, harness/", "kind_free_text": "small-scope exhaustive enumeration of inputs and breadth-first explicit-state search whose transitions are calls of the real functions, compared with reference models written in Go",
   "serves_properties": [p for p, c in checks.items() if c.get("engine", "E") == "E"]},
 ],
 "checks": [],
 "not_applicable": [],
 "notes": "All checks explore the implementation itself (no separate model). Exit 2 from a check means the machinery failed (build, replay divergence, vacuous run) and is never a verdict on the code.",
}
for p in props:
    pid = p["id"]
    if pid in checks:
        c = checks[pid]
        m["checks"].append({
         "property_id": pid,
         "quick_cmd": "./verif check %s --tier quick" % pid,
         "thorough_cmd": "./verif check %s --tier thorough" % pid,
         "evidence_file": "/verif/evidence/%s.json" % pid,
         "replay_cmd_template": "./verif replay {path}",
         "engine": "vrt+vinstr (Engine S)" if c.get("engine", "E") == "S" else "exhaustive enumeration / explicit-state search (Engine E)",
         "level_claimed": {"category": c["level"], "text": c.get("level_text", c["rule"]), "design_ref": c.get("design_ref", "DESIGN.md §3 " + pid)},
         "level_note": c.get("level_note", "; ".join(c.get("assumptions", [])) or "bounds as stated in the evidence file"),
         "technique": c.get("technique", "bounded exhaustive exploration of the implementation"),
        })
    else:
        m["not_applicable"].append({"property_id": pid, "reason": na_reasons.get(pid, "check not built yet (work in progress); not claimed")})
json.dump(m, open(os.path.join(V, "MANIFEST.json"), "w"), indent=1)
print("claimed:", [c["property_id"] for c in m["checks"]])
